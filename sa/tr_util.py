"""Shared machinery for the translation properties C03 (SystemVerilog) and C12 (Yosys).

Nothing of pymtl3 is imported or run.  The module provides

* a *class linker*: statically resolves the translator classes, including the class factories
  `mk_RTLIRTranslator` / `mk_VTranslator` (the call sites are resolved and the factory parameters bound to the
  classes passed in), and computes the C3 linearisation of the assembled back-end translator
  (`VTranslator`, `YosysTranslator`) and of the RTLIR visitors;
* a small *symbolic executor* for the translator's emitter methods (assignments, if/else, for, try, with,
  return/raise): every path yields the returned expression with local variables replaced by their definitions;
* a *template normaliser*: partial evaluation of string construction (f-strings, `+`, `.format`, `str`) into a
  sequence of literal text and holes; the literal text is whitespace-normalised into a *skeleton* of the emitted
  Verilog with numbered holes, the holes are Python expressions over the IR node that the rules judge
  semantically (which field they come from, what arithmetic they denote);
* table extraction (dict literals keyed by `ast.X` / `bir.X`);
* the rule bodies shared by both back-ends (each takes the back-end name).
"""
import ast
import itertools
import re
import string

from .astutil import (norm, walk_no_nested, always_exits, exit_kind, qualname, parent, guards_of, enclosing,
                      reaching_value, subst)
from .errors import AnalysisError
from .minieval import Evaluator, Raised
from .report import RuleResult

# ---------------------------------------------------------------------------
# anchors
GENERIC = 'pymtl3/passes/backends/generic/'
G_RTLIR_TR = GENERIC + 'RTLIRTranslator.py'
G_S1 = GENERIC + 'structural/StructuralTranslatorL1.py'
G_S2 = GENERIC + 'structural/StructuralTranslatorL2.py'
G_S3 = GENERIC + 'structural/StructuralTranslatorL3.py'
G_S4 = GENERIC + 'structural/StructuralTranslatorL4.py'
G_B1 = GENERIC + 'behavioral/BehavioralTranslatorL1.py'
SV_DIR = 'pymtl3/passes/backends/verilog/translation/'
YS_DIR = 'pymtl3/passes/backends/yosys/translation/'
SV_TR = SV_DIR + 'VTranslator.py'
YS_TR = YS_DIR + 'YosysTranslator.py'
SV_B = [SV_DIR + f'behavioral/VBehavioralTranslatorL{i}.py' for i in range(0, 6)]
SV_S = [None] + [SV_DIR + f'structural/VStructuralTranslatorL{i}.py' for i in range(1, 5)]
YS_B = [None] + [YS_DIR + f'behavioral/YosysBehavioralTranslatorL{i}.py' for i in range(1, 6)]
YS_S = [None] + [YS_DIR + f'structural/YosysStructuralTranslatorL{i}.py' for i in range(1, 5)]
YS_UTIL = 'pymtl3/passes/backends/yosys/util/utility.py'
BIR = 'pymtl3/passes/rtlir/behavioral/BehavioralRTLIR.py'
GEN = [None] + [f'pymtl3/passes/rtlir/behavioral/BehavioralRTLIRGenL{i}Pass.py' for i in range(1, 6)]
TC = [None] + [f'pymtl3/passes/rtlir/behavioral/BehavioralRTLIRTypeCheckL{i}Pass.py' for i in range(1, 6)]
SEXP = 'pymtl3/passes/rtlir/structural/StructuralRTLIRSignalExpr.py'
SGEN1 = 'pymtl3/passes/rtlir/structural/StructuralRTLIRGenL1Pass.py'
RTYPE = 'pymtl3/passes/rtlir/rtype/RTLIRType.py'
RUTIL = 'pymtl3/passes/rtlir/util/utility.py'
PYBITS = 'pymtl3/datatypes/PythonBits.py'

BACKENDS = {'sv': (SV_TR, 'VTranslator'), 'yosys': (YS_TR, 'YosysTranslator')}


# ===========================================================================
# A. class linker (factory aware) and C3 linearisation
# ===========================================================================
class Cls:
    """a statically resolved class: module, ClassDef, resolved bases"""
    def __init__(self, mod, node, key):
        self.mod, self.node, self.key = mod, node, key
        self.bases = []

    @property
    def name(self):
        return self.node.name

    def methods(self):
        return {st.name: st for st in self.mod._defs_in(self.node.body) if isinstance(st, ast.FunctionDef)}

    def __repr__(self):
        return f"<{self.name}@{self.mod.rel}>"


class Linker:
    def __init__(self, repo):
        self.repo = repo
        self.cache = {}
        self._mro = {}

    # -- resolution
    def cls_of_def(self, mod, node, binding=None, bkey=()):
        key = (mod.rel, qualname(node)) + tuple(bkey)
        c = self.cache.get(key)
        if c is not None:
            return c
        c = Cls(mod, node, key)
        self.cache[key] = c
        for b in node.bases:
            bc = self.resolve_expr(mod, b, binding)
            if bc is not None:
                c.bases.append(bc)
        return c

    def resolve_expr(self, mod, expr, binding=None, _depth=0):
        """expression denoting a class -> Cls, or None when it leaves the repository"""
        if _depth > 12:
            raise AnalysisError(f"class expression too deep: {norm(expr)}")
        if isinstance(expr, ast.Name):
            if binding and expr.id in binding:
                return binding[expr.id]
            r = self.repo.resolve(mod, expr.id)
            if r is None:
                return None
            rm, rn = r
            if isinstance(rn, ast.ClassDef):
                return self.cls_of_def(rm, rn)
            if isinstance(rn, ast.expr):
                return self.resolve_expr(rm, rn, None, _depth + 1)
            return None
        if isinstance(expr, ast.Attribute):
            r = self.repo.resolve_class(mod, expr)
            if r is None:
                return None
            return self.cls_of_def(r[0], r[1])
        if isinstance(expr, ast.Call):
            # class factory:  def mk(A, B): class _X(A, B): ... ; return _X
            if not isinstance(expr.func, ast.Name):
                return None
            r = self.repo.resolve(mod, expr.func.id)
            if r is None or not isinstance(r[1], ast.FunctionDef):
                return None
            fm, fdef = r
            rets = [n for n in walk_no_nested(fdef) if isinstance(n, ast.Return)]
            if len(rets) != 1 or not isinstance(rets[0].value, ast.Name):
                raise AnalysisError(f"class factory {fdef.name}: expected a single `return <class>`")
            inner = [st for st in fm._defs_in(fdef.body) if isinstance(st, ast.ClassDef) and st.name == rets[0].value.id]
            if len(inner) != 1:
                raise AnalysisError(f"class factory {fdef.name}: returned class {rets[0].value.id} not found")
            params = [a.arg for a in fdef.args.args]
            if expr.keywords and any(k.arg is None for k in expr.keywords):
                raise AnalysisError(f"class factory call with ** arguments: {norm(expr)}")
            if len(expr.args) > len(params) or any(isinstance(a, ast.Starred) for a in expr.args):
                raise AnalysisError(f"class factory call does not match its parameters: {norm(expr)}")
            bnd = {}
            for p, a in zip(params, expr.args):
                bnd[p] = self.resolve_expr(mod, a, binding, _depth + 1)
            for k in expr.keywords:
                if k.arg not in params:
                    raise AnalysisError(f"class factory call with unknown keyword {k.arg}: {norm(expr)}")
                bnd[k.arg] = self.resolve_expr(mod, k.value, binding, _depth + 1)
            missing = [p for p in params if p not in bnd or bnd[p] is None]
            if missing:
                raise AnalysisError(f"class factory {fdef.name}: cannot resolve argument(s) {missing} at {norm(expr)}")
            bkey = tuple(bnd[p].key for p in params)
            return self.cls_of_def(fm, inner[0], bnd, bkey)
        return None

    # -- C3
    def mro(self, cls):
        m = self._mro.get(cls.key)
        if m is not None:
            return m

        def lin(c, stack):
            if c.key in stack:
                raise AnalysisError(f"cyclic class hierarchy at {c}")
            seqs = [list(lin(b, stack | {c.key})) for b in c.bases] + [list(c.bases)]
            res = [c]
            seqs = [s for s in seqs if s]
            while seqs:
                for s in seqs:
                    head = s[0]
                    if not any(head.key in [x.key for x in t[1:]] for t in seqs):
                        break
                else:
                    raise AnalysisError(f"inconsistent MRO for {c.name}")
                res.append(head)
                for s in seqs:
                    if s[0].key == head.key:
                        del s[0]
                seqs = [s for s in seqs if s]
            return res
        m = lin(cls, frozenset())
        self._mro[cls.key] = m
        return m

    def find(self, cls, name, after=None):
        """first definition of method `name` in the MRO of cls (strictly after class `after` if given)"""
        started = after is None
        for c in self.mro(cls):
            if not started:
                if c.key == after.key:
                    started = True
                continue
            f = c.methods().get(name)
            if f is not None:
                return c, f
        return None

    def all_defs(self, cls, name):
        out = []
        for c in self.mro(cls):
            f = c.methods().get(name)
            if f is not None:
                out.append((c, f))
        return out

    def effective_methods(self, cls):
        """name -> (Cls, FunctionDef) of the definition that wins in the MRO"""
        out = {}
        for c in self.mro(cls):
            for n, f in c.methods().items():
                out.setdefault(n, (c, f))
        return out


def linker(repo):
    global _HELPERS
    lk = getattr(repo, '_tr_linker', None)
    if lk is None:
        lk = repo._tr_linker = Linker(repo)
    hp = getattr(repo, '_tr_helpers', None)
    if hp is None:
        hp = repo._tr_helpers = _template_helpers(repo)
    _HELPERS = hp
    return lk


# module-level functions of the backends that only build a piece of text (sized_decimal( nbits, value ) ...): the template
# normaliser looks through a call of one of them, so that a rule judges the emitted text and not the name of a helper
_HELPERS = {}
HELPER_MODULES = ('pymtl3/passes/backends/verilog/util/utility.py', 'pymtl3/passes/backends/yosys/util/utility.py')


def _is_template_expr(e):
    e = _strip_str(e) if isinstance(e, ast.JoinedStr) else e
    if isinstance(e, ast.JoinedStr):
        return True
    if isinstance(e, ast.Constant):
        return isinstance(e.value, str)
    if isinstance(e, ast.Call) and isinstance(e.func, ast.Attribute) and e.func.attr == 'format':
        return _is_template_expr(e.func.value)
    if isinstance(e, ast.BinOp) and isinstance(e.op, (ast.Add, ast.Mod)):
        return _is_template_expr(e.left) or (isinstance(e.op, ast.Add) and _is_template_expr(e.right))
    if isinstance(e, ast.IfExp):
        return _is_template_expr(e.body) and _is_template_expr(e.orelse)
    return False


def _template_helpers(repo):
    out = {}
    for rel in HELPER_MODULES:
        try:
            m = repo.mod(rel)
        except AnalysisError:
            continue
        for name, f in m.functions.items():
            if f.args.vararg or f.args.kwarg or f.args.kwonlyargs or not f.args.args:
                continue
            if any(isinstance(x, (ast.For, ast.While, ast.Try, ast.With, ast.FunctionDef, ast.Lambda, ast.Yield, ast.YieldFrom,
                                  ast.Global, ast.Nonlocal)) for x in ast.walk(f) if x is not f):
                continue
            try:
                ex, outs = sym_run(f, rename=False)
            except AnalysisError:
                continue
            rets = [o for o in outs if o.kind == 'return']
            if not rets or any(o.kind == 'fall' for o in outs) or any(o.value is None or not _is_template_expr(o.value) for o in rets):
                continue
            if name in out:
                out[name] = None        # two different helpers of one name: not resolved by name alone
            else:
                out[name] = (f, outs)
    return {k: v for k, v in out.items() if v is not None}


def _bind_call(f, call):
    """parameter name -> argument expression of a call of the plain function f, or None"""
    params = [a.arg for a in f.args.args]
    if any(isinstance(a, ast.Starred) for a in call.args) or any(k.arg is None for k in call.keywords) or len(call.args) > len(params):
        return None
    b = dict(zip(params, call.args))
    for k in call.keywords:
        if k.arg not in params or k.arg in b:
            return None
        b[k.arg] = k.value
    defaults = dict(zip(params[len(params) - len(f.args.defaults):], f.args.defaults))
    for p_ in params:
        if p_ not in b:
            if p_ not in defaults:
                return None
            b[p_] = defaults[p_]
    return b


def _subst_names(e, binding):
    class T(ast.NodeTransformer):
        def visit_Name(self, n):
            if isinstance(n.ctx, ast.Load) and n.id in binding:
                return clone(binding[n.id])
            return n
    return T().visit(clone(e))


def inline_helper(call, _depth=0):
    """[(value expression, conds)] of a call of a text-building helper, else None"""
    if not (isinstance(call, ast.Call) and isinstance(call.func, ast.Name) and call.func.id in _HELPERS) or _depth > 3:
        return None
    f, outs = _HELPERS[call.func.id]
    b = _bind_call(f, call)
    if b is None:
        return None
    res = []
    for o in outs:
        if o.kind != 'return':
            continue
        res.append((_subst_names(o.value, b), [(_subst_names(t, b), p) if not isinstance(t, str) else (t, p) for t, p in o.conds]))
    return res


def backend_class(repo, backend):
    rel, name = BACKENDS[backend]
    m = repo.mod(rel)
    lk = linker(repo)
    c = lk.resolve_expr(m, ast.Name(id=name, ctx=ast.Load()))
    if c is None:
        raise AnalysisError(f"anchor vanished: translator class {name} in {rel}")
    return c


def module_alias(repo, mod, target_rel):
    """local names in `mod` that denote the module `target_rel` (e.g. `bir`, `rt`, `sexp`)"""
    out = set()
    for name in mod.imports:
        try:
            r = repo.resolve(mod, name)
        except AnalysisError:
            continue
        if r is not None and isinstance(r[1], ast.Module) and r[0].rel == target_rel:
            out.add(name)
    return out


def is_abstract(fdef):
    """body (sans docstring) is `raise NotImplementedError(...)`"""
    body = [s for s in fdef.body if not (isinstance(s, ast.Expr) and isinstance(s.value, ast.Constant))]
    if len(body) != 1 or not isinstance(body[0], ast.Raise) or body[0].exc is None:
        return False
    e = body[0].exc
    if isinstance(e, ast.Call):
        e = e.func
    return isinstance(e, ast.Name) and e.id == 'NotImplementedError'


def only_raises(fdef):
    """every path through the function ends in `raise` (handler refuses the node)"""
    body = [s for s in fdef.body if not (isinstance(s, ast.Expr) and isinstance(s.value, ast.Constant))]
    if not body:
        return False
    return always_exits(body) and exit_kind(body) == {'raise'}


def sig(fdef):
    """(required positional count, maximum positional count or None for *args) excluding self"""
    a = fdef.args
    pos = list(a.posonlyargs) + list(a.args)
    n = len(pos) - 1
    req = n - len(a.defaults)
    return max(req, 0), (None if a.vararg else n), [x.arg for x in pos[1:]]


# ===========================================================================
# B. symbolic execution of small emitter methods
# ===========================================================================
UNDEF = '__undef__'


def clone(n):
    """structural copy of an ast subtree (the loader's `_parent` back-links must not be followed)"""
    if isinstance(n, ast.AST):
        new = n.__class__()
        for f in n._fields:
            if hasattr(n, f):
                setattr(new, f, clone(getattr(n, f)))
        for a in ('lineno', 'col_offset', 'end_lineno', 'end_col_offset'):
            if hasattr(n, a):
                setattr(new, a, getattr(n, a))
        return new
    if isinstance(n, list):
        return [clone(x) for x in n]
    return n


def _mk_name(n):
    return ast.Name(id=n, ctx=ast.Load())


def _mk_call(fn, *args):
    return ast.Call(func=_mk_name(fn), args=list(args), keywords=[])


class State:
    def __init__(self, env=None, conds=None, stores=None, calls=None, events=None):
        self.env = dict(env or {})
        self.conds = list(conds or [])
        self.stores = list(stores or [])      # (target expr, op or None, value expr, conds)
        self.calls = list(calls or [])        # (call expr, conds)
        self.events = list(events or [])      # raw (unsubstituted) expressions in the order they are evaluated on this path

    def fork(self):
        return State(self.env, self.conds, self.stores, self.calls, self.events)


class Outcome:
    def __init__(self, kind, state, value, node):
        self.kind, self.value, self.node = kind, value, node
        self.env, self.conds, self.stores, self.calls = state.env, list(state.conds), list(state.stores), list(state.calls)
        self.events = list(getattr(state, 'events', []))

    def cond_text(self):
        return [(norm(t), p) for t, p in self.conds]


def _has_exit(stmts):
    for st in stmts:
        for n in walk_no_nested(st):
            if isinstance(n, (ast.Return, ast.Raise, ast.Break, ast.Continue)):
                return True
    return False


def _assigned(stmts):
    out = set()
    for st in stmts:
        for n in walk_no_nested(st):
            if isinstance(n, ast.Name) and isinstance(n.ctx, (ast.Store, ast.Del)):
                out.add(n.id)
            elif isinstance(n, ast.Call) and isinstance(n.func, ast.Attribute) and isinstance(n.func.value, ast.Name) \
                    and n.func.attr in ('append', 'extend', 'insert', 'pop', 'clear', 'add', 'update', 'appendleft'):
                out.add(n.func.value.id)
    return out


class SymExec:
    """Path-wise symbolic execution of one function.  Values are ast expressions in which local names are
    replaced by their definitions; parameters, globals and loop variables stay free names.  The first parameter is
    renamed to `s` (and, for visit_* methods, the second to `node`) so that rules can compare normalised text."""
    MAX_PATHS = 600

    def __init__(self, fdef, rename=True, keep=()):
        self.fdef = fdef
        self.outcomes = []
        self.nested = {}
        self.keep = set(keep)          # local names NOT to substitute (left symbolic)
        self.ren = {}
        args = [a.arg for a in fdef.args.args]
        if rename and args:
            if args[0] != 's':
                self.ren[args[0]] = 's'
            if fdef.name.startswith('visit_') and len(args) > 1 and args[1] != 'node':
                self.ren[args[1]] = 'node'
        self.params = set(self.ren.get(a, a) for a in args) | {a.arg for a in fdef.args.kwonlyargs}
        self.evals = 0

    # -- substitution
    def sub(self, expr, st):
        ex = self
        env = st.env

        class T(ast.NodeTransformer):
            def __init__(self):
                self.bound = []

            def visit_Name(self, n):
                if isinstance(n.ctx, ast.Load):
                    nid = ex.ren.get(n.id, n.id)
                    if any(nid in b for b in self.bound):
                        return n
                    if nid in env and nid not in ex.keep:
                        return clone(env[nid])
                    if nid != n.id:
                        return ast.copy_location(ast.Name(id=nid, ctx=ast.Load()), n)
                return n

            def _comp(self, n):
                names = set()
                for g in n.generators:
                    for x in ast.walk(g.target):
                        if isinstance(x, ast.Name):
                            names.add(x.id)
                # iter of the first generator is evaluated outside the comprehension scope
                n.generators[0].iter = self.visit(n.generators[0].iter)
                self.bound.append(names)
                for i, g in enumerate(n.generators):
                    if i:
                        g.iter = self.visit(g.iter)
                    g.ifs = [self.visit(x) for x in g.ifs]
                if isinstance(n, ast.DictComp):
                    n.key = self.visit(n.key)
                    n.value = self.visit(n.value)
                else:
                    n.elt = self.visit(n.elt)
                self.bound.pop()
                return n

            visit_ListComp = visit_SetComp = visit_GeneratorExp = visit_DictComp = _comp

            def visit_Lambda(self, n):
                self.bound.append({a.arg for a in n.args.args})
                n.body = self.visit(n.body)
                self.bound.pop()
                return n

            def visit_Call(self, n):
                n = self.generic_visit(n)
                # .format(**locals())  ->  explicit keywords for the fields of the template
                if isinstance(n.func, ast.Attribute) and n.func.attr == 'format' and \
                        any(k.arg is None and isinstance(k.value, ast.Call) and norm(k.value.func) == 'locals'
                            for k in n.keywords):
                    fields = set()
                    for c in ast.walk(n.func.value):
                        if isinstance(c, ast.Constant) and isinstance(c.value, str):
                            try:
                                for _, fname, _, _ in string.Formatter().parse(c.value):
                                    if fname:
                                        fields.add(re.split(r'[.\[]', fname)[0])
                            except ValueError:
                                raise AnalysisError(f"malformed format template in {ex.fdef.name}")
                    kws = [k for k in n.keywords if k.arg is not None]
                    have = {k.arg for k in kws}
                    for fn_ in sorted(fields - have):
                        if fn_.isdigit():
                            continue
                        nid = ex.ren.get(fn_, fn_)
                        v = clone(env[nid]) if nid in env and nid not in ex.keep else _mk_name(nid)
                        kws.append(ast.keyword(arg=fn_, value=v))
                    n.keywords = kws
                return n
        return T().visit(clone(expr))

    # -- driver
    def run(self):
        st = State()
        live = self.block(self.fdef.body, [st])
        for s in live:
            self.outcomes.append(Outcome('fall', s, None, self.fdef))
        return self.outcomes

    def block(self, stmts, states):
        for stmt in stmts:
            nxt = []
            for s in states:
                nxt.extend(self.stmt(stmt, s))
            states = nxt
            if len(states) + len(self.outcomes) > self.MAX_PATHS:
                raise AnalysisError(f"too many paths in {self.fdef.name}")
            if not states:
                break
        return states

    MAX_NODES = 2500

    def _cap(self, name, value):
        # values that grow beyond any template of interest become opaque (keeps substitution polynomial)
        n = 0
        for _ in ast.walk(value):
            n += 1
            if n > self.MAX_NODES:
                self.n_big = getattr(self, 'n_big', 0) + 1
                return _mk_call('__big__', ast.Constant(value=name), ast.Constant(value=self.n_big))
        return value

    def _store(self, target, op, value, st):
        if isinstance(target, ast.Name):
            nid = self.ren.get(target.id, target.id)
            if op is None:
                st.env[nid] = self._cap(nid, value)
            else:
                prev = st.env.get(nid, _mk_name(nid))
                st.env[nid] = self._cap(nid, ast.BinOp(left=clone(prev), op=op, right=value))
        elif isinstance(target, (ast.Tuple, ast.List)):
            if isinstance(value, (ast.Tuple, ast.List)) and len(value.elts) == len(target.elts):
                for t, v in zip(target.elts, value.elts):
                    self._store(t, op, v, st)
            else:
                for i, t in enumerate(target.elts):
                    self._store(t, op, ast.Subscript(value=clone(value), slice=ast.Constant(value=i),
                                                      ctx=ast.Load()), st)
        else:
            st.stores.append((self.sub(target, st), op, value, list(st.conds)))

    def stmt(self, n, st):
        self.evals += 1
        if isinstance(n, (ast.Expr, ast.Assign, ast.AugAssign, ast.AnnAssign, ast.Return)) and getattr(n, 'value', None) is not None:
            st.events.append(n.value)
        elif isinstance(n, (ast.If, ast.While)):
            st.events.append(n.test)
        elif isinstance(n, ast.For):
            st.events.append(n.iter)
        if isinstance(n, ast.Expr):
            if isinstance(n.value, ast.Constant):
                return [st]
            v = n.value
            if isinstance(v, ast.Call) and isinstance(v.func, ast.Attribute) and isinstance(v.func.value, ast.Name):
                nid = self.ren.get(v.func.value.id, v.func.value.id)
                if nid in st.env and nid not in self.params:
                    if v.func.attr == 'append' and len(v.args) == 1:
                        st.env[nid] = ast.BinOp(left=clone(st.env[nid]), op=ast.Add(),
                                                right=ast.List(elts=[self.sub(v.args[0], st)], ctx=ast.Load()))
                        return [st]
                    if v.func.attr == 'extend' and len(v.args) == 1:
                        st.env[nid] = ast.BinOp(left=clone(st.env[nid]), op=ast.Add(), right=self.sub(v.args[0], st))
                        return [st]
                    if v.func.attr in ('insert', 'pop', 'clear', 'sort', 'reverse', 'remove', 'appendleft'):
                        st.env[nid] = _mk_call('__mutated__', clone(st.env[nid]), self.sub(v, st))
                        return [st]
            st.calls.append((self.sub(v, st), list(st.conds)))
            return [st]
        if isinstance(n, ast.Assign):
            v = self.sub(n.value, st)
            if isinstance(v, ast.Call) and isinstance(v.func, ast.Attribute) and v.func.attr in ('popleft', 'pop', 'popitem'):
                # a consuming call yields a fresh value each time: never duplicate it by substitution
                self.n_eff = getattr(self, 'n_eff', 0)
                v = _mk_call('__eff__', ast.Constant(value=self.n_eff), v)
                self.n_eff += 1
            for t in n.targets:
                self._store(t, None, clone(v), st)
            return [st]
        if isinstance(n, ast.AnnAssign):
            if n.value is not None:
                self._store(n.target, None, self.sub(n.value, st), st)
            return [st]
        if isinstance(n, ast.AugAssign):
            self._store(n.target, n.op, self.sub(n.value, st), st)
            return [st]
        if isinstance(n, ast.Return):
            self.outcomes.append(Outcome('return', st, None if n.value is None else self.sub(n.value, st), n))
            return []
        if isinstance(n, ast.Raise):
            self.outcomes.append(Outcome('raise', st, None if n.exc is None else self.sub(n.exc, st), n))
            return []
        if isinstance(n, ast.Assert):
            t = self.sub(n.test, st)
            if isinstance(t, ast.Constant) and t.value is False:
                self.outcomes.append(Outcome('raise', st, None, n))
                return []
            st.conds.append((t, True))
            return [st]
        if isinstance(n, (ast.Pass, ast.Import, ast.ImportFrom, ast.Global, ast.Nonlocal, ast.Delete)):
            return [st]
        if isinstance(n, (ast.FunctionDef, ast.ClassDef)):
            self.nested[n.name] = n
            st.env.pop(n.name, None)
            return [st]
        if isinstance(n, ast.If):
            return self._if(n, st)
        if isinstance(n, (ast.For, ast.While)):
            return self._loop(n, st)
        if isinstance(n, ast.With):
            for it in n.items:
                st.calls.append((self.sub(it.context_expr, st), list(st.conds)))
                if it.optional_vars is not None:
                    self._store(it.optional_vars, None, self.sub(it.context_expr, st), st)
            return self.block(n.body, [st])
        if isinstance(n, ast.Try):
            return self._try(n, st)
        if isinstance(n, (ast.Break, ast.Continue)):
            self.outcomes.append(Outcome('loopexit', st, None, n))
            return []
        raise AnalysisError(f"statement outside the symbolic executor: {type(n).__name__} in {self.fdef.name}")

    def _if(self, n, st):
        test = self.sub(n.test, st)
        if isinstance(test, ast.Constant):
            return self.block(n.body if test.value else n.orelse, [st])
        if not _has_exit(n.body) and not _has_exit(n.orelse):
            a, b = st.fork(), st.fork()
            a.conds.append((test, True))
            b.conds.append((test, False))
            ra = self.block(n.body, [a])
            rb = self.block(n.orelse, [b])
            if len(ra) == 1 and len(rb) == 1:
                a, b = ra[0], rb[0]
                merged = st.fork()
                for name in sorted(set(a.env) | set(b.env)):
                    va, vb = a.env.get(name), b.env.get(name)
                    if va is None:
                        va = _mk_name(UNDEF)
                    if vb is None:
                        vb = _mk_name(UNDEF)
                    if va is vb or norm(va) == norm(vb):
                        merged.env[name] = va
                    else:
                        merged.env[name] = self._cap(name, ast.IfExp(test=clone(test), body=va, orelse=vb))
                merged.stores = a.stores + b.stores[len(st.stores):]
                merged.calls = a.calls + b.calls[len(st.calls):]
                merged.events = a.events + b.events[len(st.events) + 1:]
                return [merged]
            return ra + rb
        a, b = st.fork(), st.fork()
        a.conds.append((test, True))
        b.conds.append((clone(test), False))
        return self.block(n.body, [a]) + self.block(n.orelse, [b])

    def _loop(self, n, st):
        if isinstance(n, ast.For):
            it = self.sub(n.iter, st)
            tgt = norm(n.target)
            tnames = {x.id for x in ast.walk(n.target) if isinstance(x, ast.Name)}
        else:
            it = self.sub(n.test, st)
            tgt = ''
            tnames = set()
        inner = st.fork()
        for t in tnames:
            inner.env.pop(t, None)
        mod = _assigned(n.body) - tnames
        before = {}
        # inside the body the loop-carried variables are symbolic (`__carried__(name)`)
        for m in mod:
            mid = self.ren.get(m, m)
            before[m] = inner.env.get(mid)
            if before[m] is None and mid in self.params:
                before[m] = _mk_name(mid)
            if before[m] is not None:
                inner.env[mid] = _mk_call('__carried__', ast.Constant(value=mid))
        inner.conds.append((it, 'loop'))
        res = self.block(n.body, [inner])
        out = st.fork()
        if len(res) > 1:
            # paths that differ inside the loop body: loop-carried values become opaque
            for m in mod:
                mid = self.ren.get(m, m)
                out.env[mid] = _mk_call('__loop__', clone(it), ast.Constant(value=tgt),
                                        before[m] if before[m] is not None else _mk_name(UNDEF), _mk_name('__paths__'))
            for t in tnames:
                out.env.pop(t, None)
            return [out] if not n.orelse else self.block(n.orelse, [out])
        for m in mod:
            mid = self.ren.get(m, m)
            new = res[0].env.get(mid) if res else None
            out.env[mid] = _mk_call('__loop__', clone(it), ast.Constant(value=tgt),
                                    before[m] if before[m] is not None else _mk_name(UNDEF),
                                    new if new is not None else _mk_name(UNDEF))
        if res:
            out.stores = res[0].stores
            out.calls = res[0].calls
            out.events = res[0].events
        for t in tnames:
            out.env[t] = _mk_call('__after_loop__', ast.Constant(value=t))
        return [out] if not n.orelse else self.block(n.orelse, [out])

    def _try(self, n, st):
        body_states = self.block(n.body, [st.fork()])
        if n.orelse:
            body_states = self.block(n.orelse, body_states)
        outs = list(body_states)
        assigned = _assigned(n.body)
        for h in n.handlers:
            hs = st.fork()
            for a in assigned:
                aid = self.ren.get(a, a)
                hs.env[aid] = _mk_call('__partial__', ast.Constant(value=aid))
            hs.conds.append((h.type if h.type is not None else ast.Constant(value='BaseException'), 'except'))
            if h.name:
                hs.env[h.name] = _mk_call('__exc__')
            outs.extend(self.block(h.body, [hs]))
        if n.finalbody:
            outs = self.block(n.finalbody, outs)
        return outs


def sym_run(fdef, **kw):
    ex = SymExec(fdef, **kw)
    outs = ex.run()
    return ex, outs


# ===========================================================================
# C. template normalisation
# ===========================================================================
class Hole:
    def __init__(self, expr, kind='expr', spec=None):
        self.expr, self.kind, self.spec = expr, kind, spec
        self.text = norm(expr) if expr is not None else ''

    def __repr__(self):
        return f"<{self.text}>"


class Variant:
    def __init__(self, parts, conds):
        self.parts, self.conds = parts, conds

    def skeleton(self):
        return skeleton(self.parts)

    def holes(self):
        seen, out = {}, []
        for p in self.parts:
            if isinstance(p, Hole) and p.text not in seen:
                seen[p.text] = len(out)
                out.append(p)
        return out


def _consistent(conds):
    seen = {}
    for t, p in conds:
        k = t if isinstance(t, str) else norm(t)
        if k in seen and seen[k] != p:
            return False
        seen[k] = p
    return True


def _strip_str(e):
    """str(x) / f'{x}' wrappers are transparent"""
    while True:
        if isinstance(e, ast.Call) and isinstance(e.func, ast.Name) and e.func.id == 'str' and len(e.args) == 1 and not e.keywords:
            e = e.args[0]
        elif isinstance(e, ast.JoinedStr) and len(e.values) == 1 and isinstance(e.values[0], ast.FormattedValue) \
                and e.values[0].format_spec is None:
            e = e.values[0].value
        else:
            return e


MAX_VARIANTS = 256


def _stringy(e):
    """is the expression known to be string valued (so that `+` is concatenation, not arithmetic)?"""
    e = _strip_str(e) if isinstance(e, ast.JoinedStr) else e
    if isinstance(e, ast.Constant):
        return isinstance(e.value, str)
    if isinstance(e, ast.JoinedStr):
        return True
    if isinstance(e, ast.Call):
        if isinstance(e.func, ast.Name) and e.func.id == 'str':
            return True
        if isinstance(e.func, ast.Attribute) and e.func.attr in ('format', 'join', 'center', 'ljust', 'rjust', 'strip',
                                                                  'lstrip', 'rstrip', 'replace', 'lower', 'upper'):
            return True
        return False
    if isinstance(e, ast.BinOp) and isinstance(e.op, ast.Add):
        return _stringy(e.left) or _stringy(e.right)
    if isinstance(e, ast.IfExp):
        return _stringy(e.body) or _stringy(e.orelse)
    if isinstance(e, ast.Subscript) and isinstance(e.slice, ast.Slice):
        return _stringy(e.value)
    return False


def to_variants(expr, conds=()):
    """all (conds, parts) alternatives of a string-valued symbolic expression"""
    res = _tv(expr)
    out = []
    for parts, cs in res:
        allc = list(conds) + cs
        if _consistent(allc):
            out.append(Variant(_merge_lits(parts), allc))
    return out


def _merge_lits(parts):
    out = []
    for p in parts:
        if isinstance(p, str) and out and isinstance(out[-1], str):
            out[-1] += p
        elif isinstance(p, str) and p == '':
            continue
        else:
            out.append(p)
    return out


def _prod(alts_list):
    res = [([], [])]
    for alts in alts_list:
        nxt = []
        for parts, cs in res:
            for p2, c2 in alts:
                c = cs + c2
                if _consistent(c):
                    nxt.append((parts + p2, c))
        res = nxt
        if len(res) > MAX_VARIANTS:
            raise AnalysisError("too many template variants")
    return res


def _tv(e):
    e = _strip_str(e)
    if isinstance(e, ast.Constant):
        if isinstance(e.value, str):
            return [([e.value], [])]
        if isinstance(e.value, (int,)) and not isinstance(e.value, bool):
            return [([str(e.value)], [])]
        return [([Hole(e)], [])]
    if isinstance(e, ast.JoinedStr):
        alts = []
        for v in e.values:
            if isinstance(v, ast.Constant):
                alts.append([([v.value], [])])
            elif isinstance(v, ast.FormattedValue):
                sub = _tv(v.value)
                if v.format_spec is not None:
                    # width/alignment specs only pad with blanks: keep the value, remember the spec
                    spec = norm(v.format_spec)
                    for parts, _ in sub:
                        for p in parts:
                            if isinstance(p, Hole):
                                p.spec = spec
                alts.append(sub)
            else:
                alts.append([([Hole(v)], [])])
        return _prod(alts)
    if isinstance(e, ast.BinOp) and isinstance(e.op, ast.Add) and _stringy(e):
        return _prod([_tv(e.left), _tv(e.right)])
    if isinstance(e, ast.IfExp):
        out = []
        for parts, cs in _tv(e.body):
            out.append((parts, [(e.test, True)] + cs))
        for parts, cs in _tv(e.orelse):
            out.append((parts, [(e.test, False)] + cs))
        return out
    if isinstance(e, ast.Call) and isinstance(e.func, ast.Name) and e.func.id in _HELPERS:
        inl = inline_helper(e)
        if inl is not None:
            out = []
            for val, cs0 in inl:
                for parts, cs in _tv(val):
                    out.append((parts, list(cs0) + cs))
            return out
    if isinstance(e, ast.Call) and isinstance(e.func, ast.Attribute):
        a = e.func.attr
        if a == 'format':
            out = []
            for tparts, tcs in _tv(e.func.value):
                if not all(isinstance(p, str) for p in tparts):
                    out.append(([Hole(e)], tcs))
                    continue
                text = ''.join(tparts)
                try:
                    fields = list(string.Formatter().parse(text))
                except ValueError:
                    raise AnalysisError(f"malformed format template {text!r}")
                alts = [[([], tcs)]]
                auto = 0
                kw = {k.arg: k.value for k in e.keywords if k.arg is not None}
                for lit, fname, fspec, conv in fields:
                    if lit:
                        alts.append([([lit], [])])
                    if fname is None:
                        continue
                    base = re.split(r'[.\[]', fname)[0]
                    if base == '':
                        idx, auto = auto, auto + 1
                        arg = e.args[idx] if idx < len(e.args) else None
                    elif base.isdigit():
                        arg = e.args[int(base)] if int(base) < len(e.args) else None
                    else:
                        arg = kw.get(base)
                    if arg is None or isinstance(arg, ast.Starred) or base != fname:
                        alts.append([([Hole(ast.Name(id='__field__' + (fname or str(auto)), ctx=ast.Load()))], [])])
                        continue
                    sub = _tv(arg)
                    if fspec:
                        for parts, _ in sub:
                            for p in parts:
                                if isinstance(p, Hole):
                                    p.spec = fspec
                    alts.append(sub)
                out.extend(_prod(alts))
            return out
        if a in ('center', 'ljust', 'rjust', 'strip', 'rstrip', 'lstrip') and len(e.args) <= 1:
            return _tv(e.func.value)      # blanks only
        if a == 'join' and len(e.args) == 1:
            sep = _tv(e.func.value)
            if len(sep) == 1 and all(isinstance(p, str) for p in sep[0][0]):
                return [([Hole(e.args[0], kind='join', spec=''.join(sep[0][0]))], [])]
    return [([Hole(e)], [])]


_WORD = r"[A-Za-z0-9_$'⟨⟩]"


def skeleton(parts):
    """whitespace-normalised emitted text with numbered holes ⟨k⟩"""
    seen = {}
    txt = ''
    for p in parts:
        if isinstance(p, str):
            txt += p
        else:
            k = seen.setdefault((p.kind, p.text, p.spec if p.kind == 'join' else None), len(seen))
            txt += f"⟨{k}⟩"
    txt = re.sub(r'\s+', ' ', txt.strip())
    # a blank is significant only between two word characters
    out = ''
    for i, ch in enumerate(txt):
        if ch == ' ':
            l = txt[i - 1] if i else ''
            r = txt[i + 1] if i + 1 < len(txt) else ''
            if re.match(_WORD, l) and re.match(_WORD, r):
                out += ' '
            continue
        out += ch
    return out


def hole_list(parts):
    seen, out = {}, []
    for p in parts:
        if isinstance(p, Hole):
            k = (p.kind, p.text, p.spec if p.kind == 'join' else None)
            if k not in seen:
                seen[k] = len(out)
                out.append(p)
    return out


# ===========================================================================
# D. small evaluation helpers
# ===========================================================================
class _Ev(Evaluator):
    """minieval with attribute/call leaves looked up by their normalised text"""
    def __init__(self, leaves, funcs=None):
        super().__init__({}, arith=True, funcs=funcs or {})
        self.leaves = leaves

    def ev(self, e):
        k = norm(e)
        if k in self.leaves:
            return self.leaves[k]
        return super().ev(e)

    def ev_Call(self, e):
        name = norm(e.func)
        if name in ('int', 'str', 'len', 'abs', 'bool', 'max', 'min'):
            f = {'int': int, 'str': str, 'len': len, 'abs': abs, 'bool': bool, 'max': max, 'min': min}[name]
            return f(*[self.ev(a) for a in e.args])
        if name == 'hasattr' and len(e.args) == 2:
            k = f"hasattr({norm(e.args[0])}, {norm(e.args[1])})"
            if k in self.leaves:
                return self.leaves[k]
        return super().ev_Call(e)

    def ev_BinOp(self, e):
        if isinstance(e.op, ast.Pow):
            b, x = self.ev(e.left), self.ev(e.right)
            if isinstance(b, int) and isinstance(x, int) and 0 <= x <= 64:
                return b ** x
            raise AnalysisError(f"power outside the abstract domain: {norm(e)}")
        return super().ev_BinOp(e)

    def ev_JoinedStr(self, e):
        out = ''
        for v in e.values:
            if isinstance(v, ast.Constant):
                out += str(v.value)
            else:
                out += str(self.ev(v.value))
        return out

    def ev_Subscript(self, e):
        return self.ev(e.value)[self.ev(e.slice)]


def ev_expr(expr, leaves, funcs=None):
    """value of `expr` with the given leaves (normalised text -> value); AnalysisError if outside the domain"""
    return _Ev(leaves, funcs).ev(expr)


def try_ev(expr, leaves, funcs=None):
    try:
        return True, ev_expr(expr, leaves, funcs)
    except (AnalysisError, Raised, TypeError, ValueError, KeyError, IndexError, ZeroDivisionError):
        return False, None


# ===========================================================================
# E. tables
# ===========================================================================
def attr_ref(e, aliases):
    """`alias.X` (optionally called: `alias.X()`) -> 'X' else None"""
    if isinstance(e, ast.Call) and not e.args and not e.keywords:
        e = e.func
    if isinstance(e, ast.Attribute) and isinstance(e.value, ast.Name) and e.value.id in aliases:
        return e.attr
    return None


def dict_table(d, key_aliases, val_aliases=None):
    """{alias.K : 'tok' | alias2.V()} -> {K: value}; AnalysisError on rows outside the shape"""
    out = {}
    if not isinstance(d, ast.Dict):
        raise AnalysisError(f"table is not a dict literal: {norm(d)[:60]}")
    for k, v in zip(d.keys, d.values):
        if k is None:
            raise AnalysisError("table uses ** expansion")
        kk = attr_ref(k, key_aliases)
        if kk is None or isinstance(k, ast.Call):
            raise AnalysisError(f"table key outside the expected shape: {norm(k)}")
        if isinstance(v, ast.Constant) and isinstance(v.value, str):
            vv = v.value
        elif val_aliases is not None and attr_ref(v, val_aliases) is not None:
            vv = attr_ref(v, val_aliases)
        else:
            raise AnalysisError(f"table value outside the expected shape: {norm(v)}")
        if kk in out and out[kk] != vv:
            out[kk] = vv      # python keeps the last one
        out[kk] = vv
    return out


def self_attr_table(lk, cls, attr, key_aliases_of, val_aliases_of=None):
    """the dict assigned to `s.<attr>` in the __init__ chain of cls (most derived assignment wins; item
    assignments / .update({..}) after it are applied).  Returns (table, Cls, FunctionDef, dict node)"""
    chain = lk.all_defs(cls, '__init__')
    base = None
    for c, f in chain:
        me = f.args.args[0].arg
        for n in walk_no_nested(f):
            if isinstance(n, ast.Assign) and len(n.targets) == 1 and isinstance(n.targets[0], ast.Attribute) \
                    and n.targets[0].attr == attr and isinstance(n.targets[0].value, ast.Name) and n.targets[0].value.id == me:
                base = (c, f, n.value)
        if base is not None:
            break
    if base is None:
        raise AnalysisError(f"anchor vanished: table {attr} of {cls.name}")
    c, f, d = base
    tab = dict_table(d, key_aliases_of(c.mod), val_aliases_of(c.mod) if val_aliases_of else None)
    # later modifications in more derived __init__s (they run after super().__init__)
    idx = [i for i, (cc, ff) in enumerate(chain) if ff is f][0]
    for cc, ff in reversed(chain[:idx + 1]):
        me = ff.args.args[0].arg
        for n in walk_no_nested(ff):
            tgt = None
            if isinstance(n, ast.Assign) and len(n.targets) == 1 and isinstance(n.targets[0], ast.Subscript):
                tgt = n.targets[0]
                if norm(tgt.value) == f"{me}.{attr}":
                    kk = attr_ref(tgt.slice, key_aliases_of(cc.mod))
                    if kk is None:
                        raise AnalysisError(f"table {attr}: item assignment outside the shape: {norm(n)}")
                    row = dict_table(ast.Dict(keys=[tgt.slice], values=[n.value]), key_aliases_of(cc.mod),
                                     val_aliases_of(cc.mod) if val_aliases_of else None)
                    tab.update(row)
            elif isinstance(n, ast.Call) and isinstance(n.func, ast.Attribute) and norm(n.func.value) == f"{me}.{attr}":
                if n.func.attr == 'update' and len(n.args) == 1 and isinstance(n.args[0], ast.Dict):
                    tab.update(dict_table(n.args[0], key_aliases_of(cc.mod), val_aliases_of(cc.mod) if val_aliases_of else None))
                elif n.func.attr in ('pop', 'clear', 'setdefault', 'update', '__setitem__', '__delitem__'):
                    raise AnalysisError(f"table {attr} modified outside the folding domain: {norm(n)}")
            elif isinstance(n, ast.Delete):
                for t in n.targets:
                    if isinstance(t, ast.Subscript) and norm(t.value) == f"{me}.{attr}":
                        kk = attr_ref(t.slice, key_aliases_of(cc.mod))
                        tab.pop(kk, None)
    return tab, c, f, d


# ===========================================================================
# F. shared navigation helpers for the rules
# ===========================================================================
def fq(cls, fdef):
    return f"{cls.name}.{fdef.name}"


def returned_class(lk, cls, getter):
    """class returned by the effective `getter` method of cls (`return SomeClass`)"""
    r = lk.find(cls, getter)
    if r is None:
        raise AnalysisError(f"anchor vanished: {cls.name}.{getter}")
    c, f = r
    rets = [n for n in walk_no_nested(f) if isinstance(n, ast.Return) and n.value is not None]
    if len(rets) != 1:
        raise AnalysisError(f"{fq(c, f)}: expected a single `return <class>`")
    rc = lk.resolve_expr(c.mod, rets[0].value)
    if rc is None:
        raise AnalysisError(f"{fq(c, f)}: cannot resolve returned class {norm(rets[0].value)}")
    return rc


def tov_visitor(repo, backend):
    """most-derived BehavioralRTLIRToV*/Yosys* visitor of the back-end"""
    lk = linker(repo)
    return returned_class(lk, backend_class(repo, backend), '_get_rtlir2v_visitor')


def _applied_pass(repo, backend, prefix):
    """class C of the `m.apply( C( ... ) )` call in the effective _gen_behavioral_trans_metadata whose name starts
    with prefix"""
    lk = linker(repo)
    top = backend_class(repo, backend)
    r = lk.find(top, '_gen_behavioral_trans_metadata')
    if r is None:
        raise AnalysisError("anchor vanished: _gen_behavioral_trans_metadata")
    c, f = r
    for n in walk_no_nested(f):
        if isinstance(n, ast.Call) and isinstance(n.func, ast.Attribute) and n.func.attr == 'apply' and len(n.args) == 1 \
                and isinstance(n.args[0], ast.Call) and isinstance(n.args[0].func, ast.Name) \
                and n.args[0].func.id.startswith(prefix):
            pc = lk.resolve_expr(c.mod, n.args[0].func)
            if pc is None:
                raise AnalysisError(f"cannot resolve pass class {n.args[0].func.id}")
            return pc
    raise AnalysisError(f"anchor vanished: m.apply({prefix}...) in {fq(c, f)}")


def gen_pass(repo, backend):
    return _applied_pass(repo, backend, 'BehavioralRTLIRGen')


def generator_class(repo, backend):
    lk = linker(repo)
    return returned_class(lk, gen_pass(repo, backend), 'get_rtlir_generator_class')


def typecheck_visitor(repo, backend):
    lk = linker(repo)
    return returned_class(lk, _applied_pass(repo, backend, 'BehavioralRTLIRTypeCheck'), 'get_visitor_class')


def bir_classes(repo):
    """(node classes {name: [fields]}, operator classes {name})  of BehavioralRTLIR.py"""
    m = repo.mod(BIR)
    nodes, ops = {}, set()
    for name, c in m.classes.items():
        bases = [norm(b) for b in c.bases]
        if 'BaseBehavioralRTLIR' not in bases:
            continue
        init = [s for s in c.body if isinstance(s, ast.FunctionDef) and s.name == '__init__']
        if init:
            nodes[name] = [a.arg for a in init[0].args.args[1:]]
        else:
            ops.add(name)
    if len(nodes) < 20 or len(ops) < 15:
        raise AnalysisError("anchor vanished: BehavioralRTLIR node/operator classes")
    return nodes, ops


def bir_aliases(repo, mod):
    return module_alias(repo, mod, BIR)


def is_passthrough(value, name):
    """`super().<name>(node ...)`"""
    return isinstance(value, ast.Call) and isinstance(value.func, ast.Attribute) and value.func.attr == name \
        and isinstance(value.func.value, ast.Call) and norm(value.func.value.func) == 'super'


def emissions(lk, cls, name, after=None, _depth=0, _conds=(), _stores=()):
    """return outcomes of the effective method `name`, following `return super().name(...)` delegation.
    yields (Cls, fdef, Outcome) with .conds/.stores accumulated along the delegation chain"""
    if _depth > 8:
        raise AnalysisError(f"delegation chain too deep for {name}")
    r = lk.find(cls, name, after)
    if r is None:
        return []
    c, f = r
    ex, outs = sym_run(f)
    res = []
    for o in outs:
        if o.kind == 'return' and o.value is not None and is_passthrough(o.value, name):
            sub = emissions(lk, cls, name, c, _depth + 1, tuple(_conds) + tuple(o.conds), tuple(_stores) + tuple(o.stores))
            res.extend(sub)
        else:
            o.conds = list(_conds) + o.conds
            o.stores = list(_stores) + o.stores
            res.append((c, f, o))
    return res


def visit_arg(e, field=None):
    """`s.<visitfn>(node.<field>)` -> (visitfn, field) else None"""
    if isinstance(e, ast.Call) and isinstance(e.func, ast.Attribute) and isinstance(e.func.value, ast.Name) \
            and e.func.value.id == 's' and len(e.args) == 1 and not e.keywords:
        a = e.args[0]
        if isinstance(a, ast.Attribute) and isinstance(a.value, ast.Name) and a.value.id == 'node':
            if field is None or a.attr == field:
                return e.func.attr, a.attr
    return None


WIDTH_OF = ('node.Type.get_dtype().get_length()',)


# ===========================================================================
# G. rules shared by both back-ends
# ===========================================================================
def _self_calls(cls, fdef, prefix='rtlir_tr_'):
    """calls `<self>.<prefix...>(...)` inside fdef (closures included: they close over self)"""
    me = fdef.args.args[0].arg if fdef.args.args else None
    out = []
    for n in ast.walk(fdef):
        if isinstance(n, ast.Call) and isinstance(n.func, ast.Attribute) and n.func.attr.startswith(prefix) \
                and isinstance(n.func.value, ast.Name) and n.func.value.id == me:
            out.append(n)
    return out


def rule_hooks(repo, backend):
    r = RuleResult('R-tr-hooks', f"[{backend}] every abstract rtlir_tr_* hook of the generic translator is overridden in "
                                 f"the back-end MRO with a compatible arity; every hook call passes a matching argument list")
    lk = linker(repo)
    top = backend_class(repo, backend)
    mro = lk.mro(top)
    abstract = {}
    for c in mro:
        if not c.mod.rel.startswith(GENERIC):
            continue
        for name, f in c.methods().items():
            if name.startswith('rtlir_tr_') and is_abstract(f):
                abstract.setdefault(name, (c, f))
    if len(abstract) < 40:
        raise AnalysisError(f"anchor vanished: only {len(abstract)} abstract hooks found in {GENERIC}")
    for name, (ac, af) in sorted(abstract.items()):
        ec, ef = lk.find(top, name)
        cons = f"hook {name}{tuple(sig(af)[2])}"
        if is_abstract(ef):
            r.bad(ec.mod, fq(ec, ef), cons, f"hook {name} is not overridden by the {backend} back-end: the first definition in "
                  f"the MRO ({ec.name}) raises NotImplementedError for every design that reaches it", ef.lineno)
            continue
        areq, amax, anames = sig(af)
        ereq, emax, enames = sig(ef)
        n = len(anames)
        if n < ereq or (emax is not None and n > emax):
            r.bad(ec.mod, fq(ec, ef), cons, f"override in {ec.name} takes {ereq}..{emax} positional arguments, the generic "
                  f"translator declares and passes {n} ({', '.join(anames)})", ef.lineno)
        else:
            r.ok(ec.mod, fq(ec, ef), cons)
    # call sites (dynamic dispatch: resolved against the most-derived class)
    n_sites = 0
    for c in mro:
        for mname, f in sorted(c.methods().items()):
            eff = lk.find(top, mname)
            if eff is None:
                continue
            # shadowed definitions still run when the override delegates with super(); keep all of them
            for call in _self_calls(c, f):
                hname = call.func.attr
                res = lk.find(top, hname)
                cons = f"call {norm(call)[:110]}"
                n_sites += 1
                if res is None:
                    r.bad(c.mod, fq(c, f), cons, f"calls {hname}, which no class of the {backend} translator defines "
                          f"(AttributeError at translation time)", call.lineno)
                    continue
                hc, hf = res
                if any(isinstance(a, ast.Starred) for a in call.args) or any(k.arg is None for k in call.keywords):
                    r.ok(c.mod, fq(c, f), cons, nontrivial=False, note="star arguments: arity not judged")
                    continue
                req, mx, names = sig(hf)
                npos = len(call.args)
                kws = [k.arg for k in call.keywords]
                bad_kw = [k for k in kws if k not in names and not hf.args.kwarg and k not in [a.arg for a in hf.args.kwonlyargs]]
                given = npos + len([k for k in kws if k in names])
                if bad_kw:
                    r.bad(c.mod, fq(c, f), cons, f"passes keyword(s) {bad_kw} that {hc.name}.{hname} does not accept", call.lineno)
                elif (mx is not None and npos > mx) or given < req:
                    r.bad(c.mod, fq(c, f), cons, f"passes {given} argument(s); {hc.name}.{hname}({', '.join(names)}) "
                          f"(the definition that wins in the {backend} MRO) takes {req}..{mx}", call.lineno)
                else:
                    r.ok(c.mod, fq(c, f), cons)
    r.evaluations = len(mro)
    r.require_floor(50 + 80)
    return r


# ---------------------------------------------------------------------------
META_FIELDS = {('StructInst', 'struct'), ('FreeVar', 'obj')}    # carry Python objects, not IR children / text


def constructible_nodes(repo, backend):
    """bir classes the most-derived Gen pass can construct: every `bir.X` reference in the effective methods of
    the generator and of the pass (isinstance tests excluded).  -> {name: (mod, qualified function, lineno)}"""
    lk = linker(repo)
    out = {}
    for cls in (generator_class(repo, backend), gen_pass(repo, backend)):
        # all definitions along the MRO: shadowed ones still run through super() delegation
        alldefs = [(c, f) for c in lk.mro(cls) for _, f in sorted(c.methods().items())]
        for c, f in alldefs:
            al = bir_aliases(repo, c.mod)
            if not al:
                continue
            skip = set()
            for n in ast.walk(f):
                if isinstance(n, ast.Call) and norm(n.func) == 'isinstance' and len(n.args) == 2:
                    for x in ast.walk(n.args[1]):
                        skip.add(id(x))
            for n in ast.walk(f):
                if id(n) in skip:
                    continue
                if isinstance(n, ast.Attribute) and isinstance(n.value, ast.Name) and n.value.id in al:
                    out.setdefault(n.attr, (c.mod, fq(c, f), n.lineno))
    return out


def sexp_concrete(repo):
    """signal-expression classes that construct_* / gen_signal_expr can return"""
    m = repo.mod(SEXP)
    out = set()
    for fn in m.functions.values():
        for n in ast.walk(fn):
            if isinstance(n, ast.Call) and isinstance(n.func, ast.Name) and n.func.id in m.classes:
                out.add(n.func.id)
    if len(out) < 12:
        raise AnalysisError("anchor vanished: signal expression constructors")
    return out


def sexp_kind(repo, name):
    """'index' / 'attr' / 'slice' / 'leaf' from the base classes in StructuralRTLIRSignalExpr.py"""
    m = repo.mod(SEXP)
    seen = set()
    todo = [name]
    while todo:
        n = todo.pop()
        if n in seen or n not in m.classes:
            continue
        seen.add(n)
        if n == '_Index':
            return 'index'
        if n == '_Attribute':
            return 'attr'
        if n == '_Slice':
            return 'slice'
        todo.extend(b.id for b in m.classes[n].bases if isinstance(b, ast.Name))
    return 'leaf'


def rule_handlers(repo, backend):
    r = RuleResult('R-tr-handlers', f"[{backend}] every behavioural IR node class the front end can construct has an emitting "
                                    f"visit_* in the most-derived visitor; every signal-expression class has a branch in "
                                    f"rtlir_signal_expr_translation that recurses on the base and forwards index/attr/status")
    lk = linker(repo)
    nodes, ops = bir_classes(repo)
    vis = tov_visitor(repo, backend)
    cons_nodes = constructible_nodes(repo, backend)
    unknown = [n for n in cons_nodes if n not in nodes and n not in ops]
    for n in unknown:
        m, fn, ln = cons_nodes[n]
        r.bad(m, fn, f"bir.{n}", f"the front end refers to bir.{n}, which BehavioralRTLIR.py does not define", ln)
    n_beh = 0
    for name in sorted(cons_nodes):
        if name not in nodes:
            continue
        n_beh += 1
        res = lk.find(vis, 'visit_' + name)
        m0, fn0, ln0 = cons_nodes[name]
        if res is None:
            r.bad(vis.mod, vis.name, f"visit_{name}", f"the front end builds bir.{name} (in {fn0}) but {vis.name} has no "
                  f"visit_{name}: generic_visit returns None and the text 'None' is emitted", ln0)
            continue
        c, f = res
        if only_raises(f):
            r.bad(c.mod, fq(c, f), f"visit_{name}", f"the handler that wins in the {backend} visitor MRO only raises: every "
                  f"design using bir.{name} (built in {fn0}) is refused or mistranslated", f.lineno)
            continue
        # every IR field is consulted somewhere along the handler's super() chain
        mentioned = set()
        for cc, ff in lk.all_defs(vis, 'visit_' + name):
            nd = ff.args.args[1].arg if len(ff.args.args) > 1 else 'node'
            for x in ast.walk(ff):
                if isinstance(x, ast.Attribute) and isinstance(x.value, ast.Name) and x.value.id == nd:
                    mentioned.add(x.attr)
            if not any(is_passthrough(x, 'visit_' + name) or (isinstance(x, ast.Call) and is_passthrough(x, 'visit_' + name))
                       for x in ast.walk(ff)):
                break
        missing = [fld for fld in nodes[name] if fld not in mentioned and (name, fld) not in META_FIELDS]
        if missing:
            r.bad(c.mod, fq(c, f), f"visit_{name}", f"field(s) {missing} of bir.{name} are never consulted by the handler: "
                  f"that part of the source construct is dropped from the emitted text", f.lineno)
        else:
            r.ok(c.mod, fq(c, f), f"visit_{name} covers {nodes[name]}")
    # ---- structural: rtlir_signal_expr_translation chain
    top = backend_class(repo, backend)
    chain = lk.all_defs(top, 'rtlir_signal_expr_translation')
    if not chain:
        raise AnalysisError("anchor vanished: rtlir_signal_expr_translation")
    concrete = sexp_concrete(repo)
    covered = {}
    n_str = 0
    for idx, (c, f) in enumerate(chain):
        al = module_alias(repo, c.mod, SEXP)
        params = [a.arg for a in f.args.args]
        if len(params) < 4:
            raise AnalysisError(f"{fq(c, f)}: unexpected signature")
        pexpr, pm, pstatus = params[1], params[2], params[3]
        ex, outs = sym_run(f)
        delegated = False
        for o in outs:
            tests = []
            for t, p in o.conds:
                if isinstance(t, ast.Call) and norm(t.func) == 'isinstance' and len(t.args) == 2 and norm(t.args[0]) == pexpr:
                    tests.append((attr_ref(t.args[1], al), p))
            pos = [t for t, p in tests if p is True and t]
            if o.kind == 'return' and o.value is not None and is_passthrough(o.value, 'rtlir_signal_expr_translation'):
                delegated = True
                args = [norm(a) for a in o.value.args]
                cons = f"else: {norm(o.value)}"
                if args != [pexpr, pm, pstatus] or o.value.keywords:
                    r.bad(c.mod, fq(c, f), cons, f"delegation to the next level does not forward (expr, m, status) unchanged "
                          f"(got {args}): e.g. a dropped status makes reader/writer expressions be treated as intermediate "
                          f"ones (pending array indices are not flushed)", o.node.lineno)
                elif not pos:
                    r.ok(c.mod, fq(c, f), cons)
                    n_str += 1
                continue
            if not pos:
                continue
            cname = pos[-1]
            if o.kind != 'return' or o.value is None:
                if cname in concrete and cname not in covered:
                    covered[cname] = None
                    r.bad(c.mod, fq(c, f), f"isinstance(expr, sexp.{cname})", f"branch for {cname} does not return a "
                          f"translation", o.node.lineno)
                continue
            if cname in covered:
                continue        # first branch wins (more derived level)
            covered[cname] = (c, f)
            n_str += 1
            v = o.value
            cons = f"{cname} -> {norm(v)[:100]}"
            if not (isinstance(v, ast.Call) and isinstance(v.func, ast.Attribute) and norm(v.func.value) == 's'
                    and v.func.attr.startswith('rtlir_tr_')):
                r.bad(c.mod, fq(c, f), cons, f"branch for {cname} does not call a back-end hook", o.node.lineno)
                continue
            kind = sexp_kind(repo, cname)
            args = [norm(a) for a in v.args]
            problems = []
            rec = f"s.rtlir_signal_expr_translation({pexpr}.get_base(), {pm})"
            rec_i = f"s.rtlir_signal_expr_translation({pexpr}.get_base(), {pm}, 'intermediate')"
            if kind in ('index', 'attr', 'slice'):
                if not args or args[0] not in (rec, rec_i):
                    problems.append(f"first argument must be the translation of the base as an *intermediate* expression "
                                    f"({rec}), got {args[:1]}")
                want = {'index': [f"{pexpr}.get_index()"], 'attr': [f"{pexpr}.get_attr()"],
                        'slice': [f"{pexpr}.get_slice()[0]", f"{pexpr}.get_slice()[1]"]}[kind]
                if args[1:1 + len(want)] != want:
                    problems.append(f"expected {want} after the base, got {args[1:1 + len(want)]}")
                if args[-1:] != [pstatus]:
                    problems.append(f"last argument must be the status `{pstatus}`, got {args[-1:]}")
            elif cname == 'CurComp':
                if args[-1:] != [pstatus]:
                    problems.append(f"last argument must be the status `{pstatus}`")
            if problems:
                r.bad(c.mod, fq(c, f), cons, f"{cname}: " + '; '.join(problems), o.node.lineno)
            else:
                r.ok(c.mod, fq(c, f), cons)
        if not delegated:
            break
    for cname in sorted(concrete - set(covered)):
        c0, f0 = chain[0]
        r.bad(c0.mod, fq(c0, f0), f"sexp.{cname}", f"no level of rtlir_signal_expr_translation handles {cname}, which "
              f"gen_signal_expr can produce: such connections abort the translation", f0.lineno)
    r.evaluations = n_beh + n_str
    r.require_floor(23 + 14)
    return r


# ---------------------------------------------------------------------------
# reference: Python operator (ast class) -> (python symbol, Bits dunder, IEEE-1800 token with the same two-state
# unsigned meaning on equal-width operands).  This table is the specification, not a copy of the source.
REF_OPS = {
    'Add': ('+', '__add__', '+'), 'Sub': ('-', '__sub__', '-'), 'Mult': ('*', '__mul__', '*'),
    'FloorDiv': ('//', '__floordiv__', '/'), 'Mod': ('%', '__mod__', '%'),
    'BitAnd': ('&', '__and__', '&'), 'BitOr': ('|', '__or__', '|'), 'BitXor': ('^', '__xor__', '^'),
    'Invert': ('~', '__invert__', '~'), 'LShift': ('<<', '__lshift__', '<<'), 'RShift': ('>>', '__rshift__', '>>'),
    'Eq': ('==', '__eq__', '=='), 'NotEq': ('!=', '__ne__', '!='), 'Lt': ('<', '__lt__', '<'),
    'LtE': ('<=', '__le__', '<='), 'Gt': ('>', '__gt__', '>'), 'GtE': ('>=', '__ge__', '>='),
    # not implemented by Bits -- they only occur in integer constant expressions; judged when both tables carry them
    'Div': ('/', '__truediv__', '/'), 'Pow': ('**', '__pow__', '**'), 'UAdd': ('+', '__pos__', '+'),
    'USub': ('-', '__neg__', '-'),
    'And': ('and', None, '&&'), 'Or': ('or', None, '||'), 'Not': ('not', None, '!'),
}
REF_HELPERS = {'zext': 'ZeroExt', 'sext': 'SignExt', 'trunc': 'Truncate', 'concat': 'Concat',
               'reduce_and': ('Reduce', 'BitAnd', '&'), 'reduce_or': ('Reduce', 'BitOr', '|'),
               'reduce_xor': ('Reduce', 'BitXor', '^')}
UNARY = {'Invert', 'UAdd', 'USub', 'Not'}
WRAP_REQUIRED = ('BinOp', 'Compare', 'IfExp')


def bits_dunders(repo):
    m = repo.mod(PYBITS)
    return set(m.methods('Bits'))


def frontend_opmap(repo, backend):
    lk = linker(repo)
    gen = generator_class(repo, backend)
    tab, c, f, d = self_attr_table(lk, gen, 'opmap', lambda mod: {'ast'}, lambda mod: bir_aliases(repo, mod))
    return tab, c, f


def visitor_ops(repo, backend):
    lk = linker(repo)
    vis = tov_visitor(repo, backend)
    tab, c, f, d = self_attr_table(lk, vis, 'ops', lambda mod: bir_aliases(repo, mod))
    return tab, c, f


def _dicts_keyed_by_bir(repo, cls, fdef):
    al = bir_aliases(repo, cls.mod)
    out = []
    for n in ast.walk(fdef):
        if isinstance(n, ast.Dict) and n.keys and all(k is not None and attr_ref(k, al) for k in n.keys):
            out.append(dict_table(n, al))
    return out


def _resolve_choice(e, true_test):
    """value of nested IfExp when exactly the test with text `true_test` holds"""
    while isinstance(e, ast.IfExp):
        e = e.body if norm(e.test) == true_test else e.orelse
    return e


def rule_optable(repo, backend):
    r = RuleResult('R-tr-optable', f"[{backend}] three-table agreement: Python operator -> RTLIR operator -> emitted token is the "
                                   f"IEEE-1800 operator of the same meaning; operands keep their order and are "
                                   f"parenthesised; helper functions map to their node; constant folding uses the same operator")
    lk = linker(repo)
    nodes, opcls = bir_classes(repo)
    opmap, gc, gf = frontend_opmap(repo, backend)
    ops, vc, vf = visitor_ops(repo, backend)
    dunders = bits_dunders(repo)
    n_rows = 0
    for aop in sorted(opmap):
        bop = opmap[aop]
        cons = f"ast.{aop} -> bir.{bop} -> {ops.get(bop)!r}"
        if aop not in REF_OPS:
            r.bad(gc.mod, fq(gc, gf), cons, f"the front end accepts Python operator {aop}, for which no Verilog operator with "
                  f"the same meaning on Bits is specified", gf.lineno)
            continue
        sym, dunder, want = REF_OPS[aop]
        if bop not in opcls:
            r.bad(gc.mod, fq(gc, gf), cons, f"bir.{bop} is not an operator class of BehavioralRTLIR.py", gf.lineno)
            continue
        tok = ops.get(bop)
        n_rows += 1
        if tok is None:
            r.bad(vc.mod, fq(vc, vf), cons, f"the front end maps Python `{sym}` to bir.{bop} but the emitter's operator table "
                  f"has no entry for it (internal KeyError instead of Verilog for every block using `{sym}`)", vf.lineno)
        elif tok.strip() != want:
            r.bad(vc.mod, fq(vc, vf), cons, f"Python `{sym}` is emitted as `{tok}`; the operator with the same two-state "
                  f"unsigned meaning is `{want}` (e.g. operands 6 and 3 give different results)", vf.lineno)
        else:
            r.ok(vc.mod, fq(vc, vf), cons, nontrivial=dunder in dunders)
    # operators implemented by Bits that the front end rejects are fine (translation refuses the design)
    for aop, (sym, dunder, want) in sorted(REF_OPS.items()):
        if dunder in dunders and aop not in opmap:
            r.ok(gc.mod, fq(gc, gf), f"ast.{aop} rejected by the front end", nontrivial=False)
    if n_rows < 16:
        raise AnalysisError(f"R-tr-optable: only {n_rows} operator rows composed")
    # two different bir operators must not share a token unless the reference says so (e.g. Lt/LtE swapped rows)
    # -- covered by the per-row comparison above.

    vis = tov_visitor(repo, backend)

    # ---- the wrapping visitor
    wr = lk.find(vis, 'visit_expr_wrap')
    wrapped = set()
    if wr is None:
        raise AnalysisError("anchor vanished: visit_expr_wrap")
    wc, wf = wr
    al = bir_aliases(repo, wc.mod)
    ex, outs = sym_run(wf)
    p1 = wf.args.args[1].arg
    for o in outs:
        if o.kind != 'return' or o.value is None:
            continue
        vs = to_variants(o.value)
        isinst = [(t, p) for t, p in o.conds if isinstance(t, ast.Call) and norm(t.func) == 'isinstance'
                  and norm(t.args[0]) == p1]
        for v in vs:
            sk = v.skeleton()
            hs = hole_list(v.parts)
            plain = len(hs) == 1 and hs[0].text == f"s.visit({p1})"
            if isinst and isinst[0][1] is True:
                tup = isinst[0][0].args[1]
                names = [attr_ref(x, al) for x in (tup.elts if isinstance(tup, ast.Tuple) else [tup])]
                if sk == '(⟨0⟩)' and plain:
                    wrapped |= set(n for n in names if n)
                    r.ok(wc.mod, fq(wc, wf), f"wraps {sorted(n for n in names if n)} as ( ... )")
                else:
                    r.bad(wc.mod, fq(wc, wf), f"wrap -> {sk}", "composite expressions are not emitted inside parentheses: "
                          "operator precedence of the emitted text differs from the Python expression tree "
                          "(e.g. (a+b)*c)", o.node.lineno)
            elif not (sk == '⟨0⟩' and plain) and not (sk == '(⟨0⟩)' and plain):
                r.bad(wc.mod, fq(wc, wf), f"wrap -> {sk}", "visit_expr_wrap must emit the operand itself", o.node.lineno)
    miss = [n for n in WRAP_REQUIRED if n not in wrapped]
    if miss:
        r.bad(wc.mod, fq(wc, wf), f"wrapped kinds {sorted(wrapped)}", f"{miss} operands are not parenthesised: "
              f"`(a + b) * c` or `(a if c else b) + d` is emitted with the wrong precedence", wf.lineno)

    # ---- operator handlers: skeleton and operand provenance
    def check_handler(kind, want_skel, want_holes):
        for c, f, o in emissions(lk, vis, 'visit_' + kind):
            if o.kind != 'return' or o.value is None:
                continue
            for v in to_variants(o.value):
                sk = v.skeleton()
                hs = [h.text for h in hole_list(v.parts)]
                cons = f"visit_{kind} -> {sk}  {hs}"
                if sk != want_skel:
                    r.bad(c.mod, fq(c, f), cons, f"emitted form of {kind} is `{sk}`, expected `{want_skel}` "
                          f"(operator between / before its operands)", o.node.lineno)
                    continue
                probs = []
                for h, (what, fld) in zip(hs, want_holes):
                    if what == 'op':
                        if h != 's.ops[type(node.op)]':
                            probs.append(f"operator text must be looked up with the node's own operator "
                                         f"(s.ops[type(node.op)]), got `{h}`")
                    elif what == 'wrap':
                        if h != f"s.visit_expr_wrap(node.{fld})":
                            probs.append(f"hole `{h}` must be the parenthesised translation of node.{fld}")
                    elif what == 'visit':
                        if h not in (f"s.visit(node.{fld})", f"s.visit_expr_wrap(node.{fld})"):
                            probs.append(f"hole `{h}` must be the translation of node.{fld}")
                if probs:
                    r.bad(c.mod, fq(c, f), cons, '; '.join(probs) + " -- swapped or unparenthesised operands change the value of "
                          "non-commutative / nested expressions", o.node.lineno)
                else:
                    r.ok(c.mod, fq(c, f), cons)
    check_handler('BinOp', '⟨0⟩ ⟨1⟩ ⟨2⟩', [('wrap', 'left'), ('op', None), ('wrap', 'right')])
    check_handler('Compare', '⟨0⟩ ⟨1⟩ ⟨2⟩', [('wrap', 'left'), ('op', None), ('wrap', 'right')])
    check_handler('UnaryOp', '⟨0⟩⟨1⟩', [('op', None), ('wrap', 'operand')])
    check_handler('IfExp', '⟨0⟩?⟨1⟩:⟨2⟩', [('wrap', 'cond'), ('visit', 'body'), ('visit', 'orelse')])

    # ---- reduce: helper -> Reduce(op) -> token
    red_tab = None
    for c, f, o in emissions(lk, vis, 'visit_Reduce'):
        if o.kind != 'return' or o.value is None:
            continue
        for v in to_variants(o.value):
            sk = v.skeleton()
            hl = hole_list(v.parts)
            cons = f"visit_Reduce -> {sk}"
            tabs = _dicts_keyed_by_bir(repo, c, f)
            ok = sk == '(⟨0⟩ ⟨1⟩)' and len(hl) == 2 and hl[1].text in ('s.visit(node.value)', 's.visit_expr_wrap(node.value)') and \
                isinstance(hl[0].expr, ast.Subscript) and norm(hl[0].expr.slice) == 'type(node.op)' and len(tabs) == 1
            if not ok:
                r.bad(c.mod, fq(c, f), cons, "reduction must be emitted as ( <op> <operand> ) with the operator looked up "
                      "from the node's own op", o.node.lineno)
            elif hl[1].text != 's.visit_expr_wrap(node.value)':
                red_tab = tabs[0]
                r.bad(c.mod, fq(c, f), cons + " operand " + hl[1].text, "the operand of a reduction is spliced in without parentheses: the "
                      "unary reduction operator binds tighter than any binary operator, so reduce_and(a | b) is emitted as "
                      "( & a | b ) = (&a) | b", o.node.lineno)
            else:
                red_tab = tabs[0]
                r.ok(c.mod, fq(c, f), cons)
    # ---- helper functions in the front end
    gen = generator_class(repo, backend)
    res = lk.all_defs(gen, 'visit_Call')
    found = {}
    for c, f in res:
        al = bir_aliases(repo, c.mod)
        ex, outs = sym_run(f, keep=('obj',))
        for o in outs:
            if o.kind != 'return' or o.value is None:
                continue
            holds = [norm(t) for t, p in o.conds if p is True]
            for h in REF_HELPERS:
                conds_h = [t for t in holds if re.fullmatch(rf"obj is {h}|obj == {h}", t) or
                           re.search(rf"\bobj is {h}\b", t)]
                if not conds_h or h in found:
                    continue
                v = o.value
                if h.startswith('reduce'):
                    # Reduce( <op chosen by obj>, visit(args[0]) )
                    if isinstance(v, ast.Call) and attr_ref(v.func, al) == 'Reduce' and len(v.args) == 2:
                        opx = _resolve_choice(v.args[0], f"obj is {h}")
                        found[h] = ('Reduce', attr_ref(opx, al), norm(v.args[1]), c, f, o)
                    else:
                        found[h] = (attr_ref(v.func, al) if isinstance(v, ast.Call) else None, None, '', c, f, o)
                else:
                    if isinstance(v, ast.Call) and attr_ref(v.func, al):
                        found[h] = (attr_ref(v.func, al), [norm(a) for a in v.args], None, c, f, o)
    for h, want in sorted(REF_HELPERS.items()):
        if h not in found:
            r.ok(gc.mod, gen.name, f"helper {h} rejected by the front end", nontrivial=False)
            continue
        got = found[h]
        c, f, o = got[3], got[4], got[5]
        if isinstance(want, tuple):
            node, bop, tok = want
            cons = f"{h} -> {got[0]}({got[1]}) -> {red_tab.get(got[1]) if red_tab else None!r}"
            if got[0] != node or got[1] != bop:
                r.bad(c.mod, fq(c, f), cons, f"{h}() must become Reduce(bir.{bop}); another operator computes a different "
                      f"reduction (e.g. operand 0b0110)", o.node.lineno)
            elif got[2] != 's.visit(node.args[0])':
                r.bad(c.mod, fq(c, f), cons, f"{h}() must reduce its first argument", o.node.lineno)
            elif red_tab is None or red_tab.get(bop) != tok:
                r.bad(vc.mod, vis.name + '.visit_Reduce', cons, f"Reduce(bir.{bop}) is emitted with "
                      f"`{red_tab.get(bop) if red_tab else None}`, the reduction operator with the meaning of {h}() is `{tok}`")
            else:
                r.ok(c.mod, fq(c, f), cons)
        else:
            cons = f"{h} -> {got[0]}({', '.join(got[1] or [])})"
            if got[0] != want:
                r.bad(c.mod, fq(c, f), cons, f"{h}() must become bir.{want}", o.node.lineno)
                continue
            flds = nodes[want]
            args = got[1]
            ok = True
            if want == 'Concat':
                # values in argument order (first argument = most significant, as in SV {a, b})
                ok = len(args) == 1 and _visits_in_order(got[5].value.args[0], 'node.args')
            else:
                bind = dict(zip(flds, args))
                ok = bind.get('value') == 's.visit(node.args[0])' and 'node.args[1]' in (bind.get('nbits') or '') \
                    and 'node.args[0]' not in (bind.get('nbits') or '')
            if ok:
                r.ok(c.mod, fq(c, f), cons)
            else:
                r.bad(c.mod, fq(c, f), cons, f"arguments of {h}(value, nbits) are not bound to bir.{want}{tuple(flds)} in this "
                      f"order", o.node.lineno)
    # ---- constant folding in the type checker uses the operator the front end mapped
    tcv = typecheck_visitor(repo, backend)
    inv = {}
    for aop, bop in opmap.items():
        inv.setdefault(bop, []).append(aop)
    for meth in ('eval_const_binop', 'visit_UnaryOp'):
        res = lk.find(tcv, meth)
        if res is None:
            raise AnalysisError(f"anchor vanished: type checker {meth}")
        c, f = res
        tabs = [t for t in _dicts_keyed_by_bir(repo, c, f) if all(isinstance(v, str) for v in t.values())]
        if len(tabs) != 1:
            raise AnalysisError(f"{fq(c, f)}: expected one operator table, found {len(tabs)}")
        for bop, sym in sorted(tabs[0].items()):
            for aop in inv.get(bop, []):
                want = REF_OPS[aop][0] if aop in REF_OPS else None
                cons = f"fold bir.{bop} with python `{sym}` (front end: ast.{aop})"
                if want is not None and sym.strip() != want:
                    r.bad(c.mod, fq(c, f), cons, f"constant expressions with `{want}` are folded with `{sym}`: the literal "
                          f"emitted for e.g. 6 {want} 3 is the value of 6 {sym} 3", f.lineno)
                else:
                    r.ok(c.mod, fq(c, f), cons)
    # ---- the two back-ends agree
    if backend == 'yosys':
        ops_sv, sc, sf = visitor_ops(repo, 'sv')
        for bop in sorted(set(ops) | set(ops_sv)):
            cons = f"bir.{bop}: sv {ops_sv.get(bop)!r} / yosys {ops.get(bop)!r}"
            if ops.get(bop) != ops_sv.get(bop):
                r.bad(vc.mod, fq(vc, vf), cons, "the Yosys visitor emits another operator than the SystemVerilog visitor for the "
                      "same RTLIR operator", vf.lineno)
            else:
                r.ok(vc.mod, fq(vc, vf), cons, nontrivial=False)
    r.evaluations = n_rows
    r.require_floor(16 + 6 + 7 + 10)
    return r


# ---------------------------------------------------------------------------
AST_BINOPS = ['Add', 'Sub', 'Mult', 'MatMult', 'Div', 'Mod', 'Pow', 'LShift', 'RShift', 'BitOr', 'BitXor', 'BitAnd', 'FloorDiv']


class _KindEv(_Ev):
    """evaluates isinstance(<subject>, ast.X | (ast.X, ...)) for an abstract node kind"""
    def __init__(self, subject, kind, aliases, leaves=None):
        super().__init__(leaves or {})
        self.subject, self.kind, self.aliases = subject, kind, aliases

    def ev_Call(self, e):
        if norm(e.func) == 'isinstance' and len(e.args) == 2 and norm(e.args[0]) == self.subject:
            t = e.args[1]
            names = [attr_ref(x, self.aliases) for x in (t.elts if isinstance(t, ast.Tuple) else [t])]
            if any(n is None for n in names):
                raise AnalysisError(f"isinstance on a type outside the abstract domain: {norm(e)}")
            return self.kind in names
        return super().ev_Call(e)


def flatten_add(e):
    if isinstance(e, ast.BinOp) and isinstance(e.op, ast.Add):
        return flatten_add(e.left) + flatten_add(e.right)
    return [e]


def _is_loopcall(e):
    return isinstance(e, ast.Call) and isinstance(e.func, ast.Name) and e.func.id == '__loop__'


class Elementwise:
    """`one value per item of `it` (bound to `target`), in iteration order`, whatever the spelling:
    comprehension / generator / list(...) / map(f, it) / append-or-extend loop (as summarised by SymExec)"""
    def __init__(self, it, target, elt, conds=(), flat=False):
        self.it, self.target, self.elt, self.conds, self.flat = it, target, elt, list(conds), flat
        self.names = [x.strip() for x in target.strip('()').split(',')]


def elementwise(e):
    """Elementwise view of a list-valued symbolic expression, or None"""
    if isinstance(e, ast.Call) and isinstance(e.func, ast.Name) and e.func.id in ('list', 'tuple') and len(e.args) == 1:
        return elementwise(e.args[0])
    if isinstance(e, (ast.ListComp, ast.GeneratorExp)):
        if len(e.generators) == 1:
            g = e.generators[0]
            return Elementwise(g.iter, norm(g.target), e.elt, g.ifs)
        if len(e.generators) == 2 and not e.generators[0].ifs and not e.generators[1].ifs and \
                norm(e.elt) == norm(e.generators[1].target):
            # [ l for x in it for l in f(x) ]  ==  flattened f(x)
            g = e.generators[0]
            return Elementwise(g.iter, norm(g.target), e.generators[1].iter, (), flat=True)
        return None
    if isinstance(e, ast.Call) and isinstance(e.func, ast.Name) and e.func.id == 'map' and len(e.args) == 2:
        fn, it = e.args
        if isinstance(fn, ast.Lambda):
            tg = ', '.join(a.arg for a in fn.args.args)
            return Elementwise(it, f"({tg})" if len(fn.args.args) > 1 else tg, fn.body)
        return Elementwise(it, '_x', ast.Call(func=fn, args=[_mk_name('_x')], keywords=[]))
    if isinstance(e, ast.Call) and isinstance(e.func, ast.Name) and e.func.id == 'sum' and len(e.args) == 2 and norm(e.args[1]) == '[]':
        ew = elementwise(e.args[0])
        if ew is not None and not ew.flat:
            ew.flat = True
            return ew
        return None
    if isinstance(e, ast.BinOp) and isinstance(e.op, ast.Add) and isinstance(e.left, ast.List) and not e.left.elts:
        return elementwise(e.right)
    if _is_loopcall(e) and len(e.args) == 4:
        it, tgt, init, step = e.args
        if not (isinstance(init, ast.List) and not init.elts):
            return None
        conds = []
        while isinstance(step, ast.IfExp) and re.fullmatch(r"__carried__\('\w+'\)", norm(step.orelse)):
            conds.append(step.test)
            step = step.body
        if isinstance(step, ast.BinOp) and isinstance(step.op, ast.Add) and re.fullmatch(r"__carried__\('\w+'\)", norm(step.left)):
            rt_ = step.right
            if isinstance(rt_, ast.List) and len(rt_.elts) == 1:
                return Elementwise(it, tgt.value, rt_.elts[0], conds)
            return Elementwise(it, tgt.value, rt_, conds, flat=True)
    return None


def block_layout(lk, vis, name, r, header_ok, what, _after=None, _depth=0):
    """check that visit_CombUpblk / visit_SeqUpblk returns [header] + statements in source order + ['end']"""
    res = lk.find(vis, name, _after)
    if res is None:
        raise AnalysisError(f"anchor vanished: {name}")
    c, f = res
    ex, outs = sym_run(f)
    rets = [o for o in outs if o.kind == 'return' and o.value is not None]
    if not rets:
        r.bad(c.mod, fq(c, f), name, "handler returns nothing", f.lineno)
        return
    for o in rets:
        segs = [s_ for s_ in flatten_add(o.value) if not (isinstance(s_, ast.List) and not s_.elts)]
        pts = [s_ for s_ in segs if is_passthrough(s_, name)]
        if pts:
            others = [s_ for s_ in segs if not is_passthrough(s_, name)]
            cons = f"{name} -> {' + '.join(norm(x)[:40] for x in segs)}"
            if len(pts) != 1 or segs[-1] is not pts[0] or any(not (isinstance(x, ast.Call) and norm(x.func).startswith('s.'))
                                                             for x in others):
                r.bad(c.mod, fq(c, f), cons, f"the block produced by the inherited handler must be kept whole and last "
                      f"(only declarations may precede it)", o.node.lineno)
            else:
                # anything read from the visitor's state to decorate the block (loop-variable declarations) must be read
                # AFTER the inherited handler has visited the block, which is what fills that state
                order = []
                for ev_ in o.events:
                    for call in eval_order_calls(ev_):
                        if is_passthrough(call, name):
                            order.append(('visit', call))
                        elif isinstance(call.func, ast.Attribute) and isinstance(call.func.value, ast.Name) and \
                                call.func.value.id == f.args.args[0].arg and any(norm(call) == norm(x).replace('s.', f.args.args[0].arg + '.', 1)
                                                                              or norm(call) == norm(x) for x in others):
                            order.append(('read', call))
                early = []
                seen_visit = False
                for k_, call in order:
                    if k_ == 'visit':
                        seen_visit = True
                    elif not seen_visit:
                        early.append(call)
                if early:
                    r.bad(c.mod, fq(c, f), cons, f"`{norm(early[0])}` is evaluated before the inherited handler visits the block "
                          f"(operands of + are evaluated left to right): state collected while visiting -- the loop variables that "
                          f"need an `integer` declaration -- is read too early and the declarations are lost", o.node.lineno)
                else:
                    r.ok(c.mod, fq(c, f), cons, nontrivial=False)
            block_layout(lk, vis, name, r, header_ok, what, c, _depth + 1)
            continue
        cons = f"{name} -> {' + '.join(norm(x)[:50] for x in segs)}"
        if len(segs) < 3 or not isinstance(segs[0], ast.List) or len(segs[0].elts) != 1:
            r.bad(c.mod, fq(c, f), cons, "block must start with exactly one header line", o.node.lineno)
            continue
        hv = to_variants(segs[0].elts[0])
        hsk = [v.skeleton() for v in hv]
        if not all(header_ok(h) for h in hsk):
            r.bad(c.mod, fq(c, f), f"{name} header {hsk}", f"an {what} update block must be emitted as {header_ok.__doc__}",
                  o.node.lineno)
            continue
        if not (isinstance(segs[-1], ast.List) and len(segs[-1].elts) == 1 and isinstance(segs[-1].elts[0], ast.Constant)
                and str(segs[-1].elts[0].value).strip() == 'end'):
            r.bad(c.mod, fq(c, f), cons, "block must be closed by `end` after the last statement", o.node.lineno)
            continue
        mids = segs[1:-1]
        ew = elementwise(mids[0]) if len(mids) == 1 else None
        okm = ew is not None and not ew.conds and norm(ew.it) == 'node.body' and len(ew.names) == 1 and \
            norm(ew.elt) == f"s.visit({ew.names[0]})"
        if not okm:
            r.bad(c.mod, fq(c, f), cons, "statements of the block are not emitted once each in source order between the "
                  "header and `end` (reordered / reversed / skipped statements change blocking-assignment semantics)",
                  o.node.lineno)
            continue
        r.ok(c.mod, fq(c, f), f"{name}: {hsk[0]} ... statements in order ... end")


def _comb_header(h):
    """`always_comb begin : <name>`"""
    return re.fullmatch(r"always_comb begin:⟨0⟩", h) is not None


def _seq_header(h):
    """`always_ff @(posedge clk) begin : <name>`"""
    return re.fullmatch(r"always_ff@\(posedge clk\)begin:⟨0⟩", h) is not None


class _BlockingEv(_Ev):
    """abstract evaluation of get_blocking: bir_node.targets is a list of kinds 'T' (temporary) / 'S' (signal)"""
    def __init__(self, kinds, blk, bir_name, aliases):
        super().__init__({})
        self.kinds, self.blk, self.bn, self.aliases = kinds, blk, bir_name, aliases
        self.bound = {}

    def ev(self, e):
        t = norm(e)
        if t == f"{self.bn}.targets":
            return list(self.kinds)
        if t == 's._upblk_type':
            return ('cls', self.blk)
        if isinstance(e, ast.Name) and e.id in self.bound:
            return self.bound[e.id]
        ar = attr_ref(e, self.aliases) if isinstance(e, ast.Attribute) else None
        if ar is not None:
            return ('cls', ar)
        return super().ev(e)

    def ev_Compare(self, e):
        if len(e.ops) == 1 and isinstance(e.ops[0], (ast.Is, ast.IsNot)):
            v = self.ev(e.left) == self.ev(e.comparators[0])
            return v if isinstance(e.ops[0], ast.Is) else not v
        return super().ev_Compare(e)

    def ev_Call(self, e):
        name = norm(e.func)
        if name == 'isinstance' and len(e.args) == 2:
            v = self.ev(e.args[0])
            t = e.args[1]
            names = [attr_ref(x, self.aliases) for x in (t.elts if isinstance(t, ast.Tuple) else [t])]
            if v in ('T', 'S') and all(names):
                return (v == 'T') if 'TmpVar' in names else (v == 'S' and bool(names))
            raise AnalysisError(f"isinstance outside the abstract domain: {norm(e)}")
        if name in ('any', 'all') and len(e.args) == 1 and isinstance(e.args[0], (ast.GeneratorExp, ast.ListComp)) \
                and len(e.args[0].generators) == 1 and isinstance(e.args[0].generators[0].target, ast.Name):
            g = e.args[0].generators[0]
            vals = []
            for item in self.ev(g.iter):
                self.bound[g.target.id] = item
                if all(self.ev(c) for c in g.ifs):
                    vals.append(bool(self.ev(e.args[0].elt)))
            self.bound.pop(g.target.id, None)
            return any(vals) if name == 'any' else all(vals)
        return super().ev_Call(e)


class _StmtEv(_Ev):
    """evaluates a begin/end condition for node.<field> = an abstract list of IR statements [(kind, number of targets)];
    the local list of emitted lines of the same name has one line per emitted statement"""
    def __init__(self, lk, vis, aliases, field, stmts, bound=None, depth=0):
        super().__init__({})
        self.lk, self.vis, self.aliases, self.field, self.stmts = lk, vis, aliases, field, stmts
        self.bound, self.depth = dict(bound or {}), depth

    def ev(self, e):
        t = norm(e)
        if t == f"node.{self.field}":
            return list(self.stmts)
        if t == self.field:
            return ['line'] * sum(n for _, n in self.stmts)
        if isinstance(e, ast.Name) and e.id in self.bound:
            return self.bound[e.id]
        if isinstance(e, ast.Attribute) and e.attr == 'targets':
            v = self.ev(e.value)
            if isinstance(v, tuple) and len(v) == 2:
                return ['t'] * v[1]
        return super().ev(e)

    def ev_Call(self, e):
        name = norm(e.func)
        if name == 'isinstance' and len(e.args) == 2:
            v = self.ev(e.args[0])
            names = [attr_ref(x, self.aliases) for x in (e.args[1].elts if isinstance(e.args[1], ast.Tuple) else [e.args[1]])]
            if isinstance(v, tuple) and all(names):
                return v[0] in names
            raise AnalysisError(f"isinstance outside the abstract domain: {norm(e)}")
        if name == 'sum' and len(e.args) == 1 and isinstance(e.args[0], (ast.GeneratorExp, ast.ListComp)) and len(e.args[0].generators) == 1:
            g = e.args[0].generators[0]
            tot = 0
            for item in self.ev(g.iter):
                sub = _StmtEv(self.lk, self.vis, self.aliases, self.field, self.stmts, dict(self.bound, **{g.target.id: item}), self.depth)
                if all(sub.ev(c) for c in g.ifs):
                    tot += sub.ev(e.args[0].elt)
            return tot
        if isinstance(e.func, ast.Attribute) and isinstance(e.func.value, ast.Name) and e.func.value.id == 's' and self.depth < 3:
            res = self.lk.find(self.vis, e.func.attr)
            if res is not None and len(e.args) == len(res[1].args.args) - 1:
                hf = res[1]
                if not hf.args.vararg and not hf.args.kwarg and not e.keywords:
                    # the helper is interpreted on the abstract statement list: straight-line code, if, and loops over
                    # the concrete lists of the scenario (a generator under sum() and an explicit accumulator loop agree)
                    bound = {a.arg: self.ev(x) for a, x in zip(hf.args.args[1:], e.args)}
                    sub = _StmtEv(self.lk, self.vis, bir_aliases(self.lk.repo, res[0].mod), self.field, self.stmts, bound, self.depth + 1)
                    try:
                        sub.run(hf.body)
                    except _HelperReturn as r_:
                        return r_.value
                    return None
        return super().ev_Call(e)

    MAX_STEPS = 2000

    def run(self, body):
        """concrete interpretation of a helper's statements; the environment is self.bound"""
        for st in body:
            self.steps = getattr(self, 'steps', 0) + 1
            if self.steps > self.MAX_STEPS:
                raise AnalysisError("helper of a begin/end condition does not terminate in the abstract domain")
            if isinstance(st, ast.Pass) or (isinstance(st, ast.Expr) and isinstance(st.value, ast.Constant)):
                continue
            if isinstance(st, ast.Return):
                raise _HelperReturn(None if st.value is None else self.ev(st.value))
            if isinstance(st, (ast.Assign, ast.AnnAssign)) and getattr(st, 'value', None) is not None:
                val = self.ev(st.value)
                for t in (st.targets if isinstance(st, ast.Assign) else [st.target]):
                    self._bind(t, val)
                continue
            if isinstance(st, ast.AugAssign) and isinstance(st.target, ast.Name):
                cur = ast.BinOp(left=ast.Name(id=st.target.id, ctx=ast.Load()), op=st.op, right=st.value)
                self.bound[st.target.id] = self.ev(cur)
                continue
            if isinstance(st, ast.If):
                self.run(st.body if self.ev(st.test) else st.orelse)
                continue
            if isinstance(st, ast.For):
                broke = False
                for item in list(self.ev(st.iter)):
                    self._bind(st.target, item)
                    try:
                        self.run(st.body)
                    except _HelperBreak:
                        broke = True
                        break
                    except _HelperContinue:
                        continue
                if not broke:
                    self.run(st.orelse)
                continue
            if isinstance(st, ast.While):
                while self.ev(st.test):
                    try:
                        self.run(st.body)
                    except _HelperBreak:
                        break
                    except _HelperContinue:
                        continue
                continue
            if isinstance(st, ast.Break):
                raise _HelperBreak()
            if isinstance(st, ast.Continue):
                raise _HelperContinue()
            if isinstance(st, ast.Assert):
                if not self.ev(st.test):
                    raise Raised('AssertionError')
                continue
            if isinstance(st, ast.Raise):
                raise Raised(norm(st.exc.func) if isinstance(st.exc, ast.Call) else norm(st.exc) if st.exc is not None else 'raise')
            if isinstance(st, ast.Expr):
                self.ev(st.value)
                continue
            raise AnalysisError(f"statement outside the abstract domain in a helper of a begin/end condition: {type(st).__name__}")

    def _bind(self, target, val):
        if isinstance(target, ast.Name):
            self.bound[target.id] = val
        elif isinstance(target, (ast.Tuple, ast.List)) and isinstance(val, (tuple, list)) and len(val) == len(target.elts):
            for t, v in zip(target.elts, val):
                self._bind(t, v)
        else:
            raise AnalysisError(f"assignment target outside the abstract domain: {norm(target)}")


class _HelperReturn(Exception):
    def __init__(self, value):
        self.value = value


class _HelperBreak(Exception):
    pass


class _HelperContinue(Exception):
    pass


class _ChainEv(_Ev):
    """evaluates the target / value expressions of visit_Assign for node.targets = [t0, t1, ...]"""
    def __init__(self, tnames, blocking, bound=None):
        super().__init__({'node.blocking': blocking})
        self.tnames, self.bound = list(tnames), dict(bound or {})

    def ev(self, e):
        t = norm(e)
        if t == 's.visit(node.value)':
            return 'RHS'
        if t == 'node.targets':
            return list(self.tnames)
        if isinstance(e, ast.Name) and e.id in self.bound:
            return self.bound[e.id]
        if isinstance(e, (ast.ListComp, ast.GeneratorExp)) and len(e.generators) == 1 and not e.generators[0].ifs:
            g = e.generators[0]
            if isinstance(g.target, ast.Name) and norm(e.elt) == f"s.visit({g.target.id})":
                return list(self.ev(g.iter))
        if isinstance(e, ast.Call) and isinstance(e.func, ast.Name) and e.func.id in ('list', 'tuple', 'reversed') and len(e.args) == 1:
            v = list(self.ev(e.args[0]))
            return v[::-1] if e.func.id == 'reversed' else v
        if isinstance(e, ast.Call) and isinstance(e.func, ast.Name) and e.func.id == 'map' and len(e.args) == 2 and norm(e.args[0]) == 's.visit':
            return list(self.ev(e.args[1]))
        if isinstance(e, ast.Subscript):
            base = self.ev(e.value)
            sl = e.slice
            if isinstance(sl, ast.Slice):
                f_ = lambda x: None if x is None else self.ev(x)
                return base[slice(f_(sl.lower), f_(sl.upper), f_(sl.step))]
            return base[self.ev(sl)]
        return super().ev(e)


def rule_assign(repo, backend):
    r = RuleResult('R-tr-assign', f"[{backend}] @= becomes a blocking `=` and <<= a non-blocking `<=`; update blocks become "
                                  f"always_comb, update_ff blocks always_ff @(posedge clk); statements keep their order")
    lk = linker(repo)
    gen = generator_class(repo, backend)
    nev = 0
    # (a) front end: visit_AugAssign
    res = lk.find(gen, 'visit_AugAssign')
    if res is None:
        raise AnalysisError("anchor vanished: visit_AugAssign")
    c, f = res
    al = bir_aliases(repo, c.mod)
    ex, outs = sym_run(f)
    rets = [o for o in outs if o.kind == 'return' and o.value is not None]
    for kind in AST_BINOPS:
        taken = []
        for o in rets:
            hold = True
            for t, p in o.conds:
                if p not in (True, False):
                    continue
                nev += 1
                okv, val = True, None
                try:
                    val = _KindEv('node.op', kind, {'ast'}).ev(t)
                except (AnalysisError, Raised):
                    okv = False
                if not okv:
                    raise AnalysisError(f"{fq(c, f)}: guard outside the abstract domain: {norm(t)}")
                if bool(val) != p:
                    hold = False
                    break
            if hold:
                taken.append(o)
        cons = f"target {kind}= value"
        if kind not in ('LShift', 'MatMult'):
            if taken:
                r.bad(c.mod, fq(c, f), cons, f"augmented assignment with operator {kind} is translated as a signal assignment "
                      f"(only @= and <<= are assignments)", taken[0].node.lineno)
            else:
                r.ok(c.mod, fq(c, f), cons + " rejected", nontrivial=False)
            continue
        if len(taken) != 1:
            r.bad(c.mod, fq(c, f), cons, f"{'@=' if kind == 'MatMult' else '<<='} is not translated on exactly one path", f.lineno)
            continue
        v = taken[0].value
        if not (isinstance(v, ast.Call) and attr_ref(v.func, al) == 'Assign' and len(v.args) == 3):
            r.bad(c.mod, fq(c, f), cons, "does not build bir.Assign(targets, value, blocking)", taken[0].node.lineno)
            continue
        try:
            blocking = _KindEv('node.op', kind, {'ast'}).ev(v.args[2])
            nev += 1
        except (AnalysisError, Raised) as e:
            raise AnalysisError(f"{fq(c, f)}: blocking flag outside the abstract domain: {norm(v.args[2])}")
        want = kind == 'MatMult'
        tv = [norm(a) for a in v.args[:2]]
        if bool(blocking) != want:
            r.bad(c.mod, fq(c, f), f"{cons}: blocking={blocking}", f"{'@=' if want else '<<='} must produce a "
                  f"{'blocking' if want else 'non-blocking'} assignment; with the flag inverted a register update becomes "
                  f"visible in the same cycle / a combinational value is delayed", taken[0].node.lineno)
        elif tv != ['[s.visit(node.target)]', 's.visit(node.value)']:
            r.bad(c.mod, fq(c, f), f"{cons}: Assign({', '.join(tv)})", "target and value of the assignment are not taken from "
                  "node.target / node.value", taken[0].node.lineno)
        else:
            r.ok(c.mod, fq(c, f), f"{cons}: blocking={bool(blocking)}")
    # (b) get_blocking: the decision is a function of the kind of every target (temporary -> blocking in both block kinds;
    #     signal -> blocking exactly in a combinational block; mixed chains rejected), for any number of targets
    chain = lk.all_defs(gen, 'get_blocking')
    if not chain:
        raise AnalysisError("anchor vanished: get_blocking")
    runs = [(c_, f_, sym_run(f_)[1]) for c_, f_ in chain]

    def decide(level, kinds, blk):
        """'blocking' / 'nonblocking' / 'reject' for a target list of the given kinds in a block of kind blk"""
        nonlocal nev
        if level >= len(runs):
            raise AnalysisError("get_blocking: super() chain leaves the repository")
        c_, f_, outs_ = runs[level]
        al_ = bir_aliases(repo, c_.mod)
        ps = [a.arg for a in f_.args.args]
        bn = ps[2] if len(ps) > 2 else 'bir_node'
        ev = _BlockingEv(kinds, blk, bn, al_)
        live = []
        for o in outs_:
            okp = True
            for t, pol in o.conds:
                if pol not in (True, False):
                    continue
                nev += 1
                try:
                    val = bool(ev.ev(t))
                except (AnalysisError, Raised, TypeError, IndexError) as e:
                    raise AnalysisError(f"{fq(c_, f_)}: condition outside the abstract domain: {norm(t)[:80]}")
                if val != pol:
                    okp = False
                    break
            if okp:
                live.append(o)
        if len(live) != 1:
            raise AnalysisError(f"{fq(c_, f_)}: {len(live)} paths for targets {kinds} in {blk}")
        o = live[0]
        if o.kind == 'raise':
            return 'reject', c_, f_, o
        if o.kind != 'return' or o.value is None:
            return 'none', c_, f_, o
        if is_passthrough(o.value, 'get_blocking'):
            return decide(level + 1, kinds, blk)
        try:
            val = ev.ev(o.value)
        except (AnalysisError, Raised, TypeError, IndexError):
            raise AnalysisError(f"{fq(c_, f_)}: result outside the abstract domain: {norm(o.value)[:80]}")
        return ('blocking' if val else 'nonblocking'), c_, f_, o
    reported = set()
    n_cfg = 0
    for n_t in (1, 2, 3):
        for kinds in itertools.product('TS', repeat=n_t):
            for blk in ('CombUpblk', 'SeqUpblk'):
                n_cfg += 1
                got, c_, f_, o = decide(0, list(kinds), blk)
                if set(kinds) == {'T'}:
                    want = 'blocking'
                elif set(kinds) == {'S'}:
                    want = 'blocking' if blk == 'CombUpblk' else 'nonblocking'
                else:
                    want = 'reject'
                if got != want:
                    key = (fq(c_, f_), norm(o.node)[:60], want)
                    if key in reported:
                        continue
                    reported.add(key)
                    show = ' = '.join('tmp' if k == 'T' else 's.sig' for k in kinds)
                    r.bad(c_.mod, fq(c_, f_), f"get_blocking: {norm(o.node)[:90]}",
                          f"`{show} = value` in an {'update' if blk == 'CombUpblk' else 'update_ff'} block is "
                          f"{'rejected' if got == 'reject' else 'emitted as a ' + got + ' assignment'}, expected {want}: a temporary is "
                          f"always assigned blocking (later reads in the same block see the new value), a signal with `=` in "
                          f"always_comb and `<=` in always_ff, a chain mixing both kinds cannot use one operator", o.node.lineno)
    c0, f0 = chain[0]
    bad_classes = {(k[2]) for k in reported}
    for cls_, want_c, want_s in (('all temporaries', 'blocking', 'blocking'), ('all signals', 'blocking', 'nonblocking'),
                                 ('temporaries and signals mixed', 'reject', 'reject')):
        for blk, want in (('update', want_c), ('update_ff', want_s)):
            if not reported:
                r.ok(c0.mod, fq(c0, f0), f"get_blocking: {cls_} in {blk} -> {want} (1..3 targets)")
    # (c) pass: block kind <-> block list
    gp = gen_pass(repo, backend)
    res = lk.find(gp, '__call__')
    if res is None:
        raise AnalysisError("anchor vanished: Gen pass __call__")
    c, f = res
    al = bir_aliases(repo, c.mod)
    pair = None
    for n in ast.walk(f):
        if isinstance(n, ast.Dict) and n.keys and all(k is not None and attr_ref(k, al) in ('CombUpblk', 'SeqUpblk') for k in n.keys):
            pair = {attr_ref(k, al): (norm(v.func) if isinstance(v, ast.Call) else norm(v)) for k, v in zip(n.keys, n.values)}
    want = {'CombUpblk': 'get_ordered_upblks', 'SeqUpblk': 'get_ordered_update_ff'}
    cons = f"block lists {pair}"
    if pair is None:
        raise AnalysisError(f"{fq(c, f)}: block-kind table not found")
    if pair != want:
        r.bad(c.mod, fq(c, f), cons, "update blocks must be generated as CombUpblk and update_ff blocks as SeqUpblk; "
              "swapped lists turn registers into combinational logic and vice versa", f.lineno)
    else:
        r.ok(c.mod, fq(c, f), cons)
    # the kind handed to the generator is the key under which the block was listed
    okk = False
    for n in ast.walk(f):
        if isinstance(n, ast.For) and isinstance(n.target, ast.Name):
            kv = n.target.id
            sets = [x for x in ast.walk(n) if isinstance(x, ast.Assign) and len(x.targets) == 1 and
                    isinstance(x.targets[0], ast.Attribute) and x.targets[0].attr == '_upblk_type' and norm(x.value) == kv]
            inner = [x for x in ast.walk(n) if isinstance(x, ast.For) and x is not n and
                     isinstance(x.iter, ast.Subscript) and norm(x.iter.slice) == kv]
            if sets and inner and all(any(s_ is y for y in ast.walk(inner[0])) for s_ in sets):
                okk = True
    if okk:
        r.ok(c.mod, fq(c, f), "visitor._upblk_type = key of the list the block came from")
    else:
        r.bad(c.mod, fq(c, f), "visitor._upblk_type", "the block kind given to the generator is not the key of the list the "
              "block was taken from", f.lineno)
    # (d) partition of the blocks
    um = repo.mod(RUTIL)
    for fname, is_ff in (('get_ordered_upblks', False), ('get_ordered_update_ff', True)):
        fn = um.functions.get(fname)
        if fn is None:
            raise AnalysisError(f"anchor vanished: {fname}")
        ex, outs = sym_run(fn, rename=False)
        rets = [o for o in outs if o.kind == 'return' and o.value is not None]
        p0 = fn.args.args[0].arg
        ew = elementwise(rets[0].value) if len(rets) == 1 else None
        if ew is None or ew.flat:
            raise AnalysisError(f"{fname}: expected a single filtering comprehension / loop")

        class _G:
            pass
        g = _G()
        g.ifs, x = ew.conds, ew.names[0]
        if norm(ew.it) != f"{p0}.get_update_block_order()" or norm(ew.elt) != x or len(ew.names) != 1:
            r.bad(um, fname, norm(rets[0].value)[:160], "blocks must be listed in get_update_block_order() order", fn.lineno)
            continue
        sel = []
        for blk in (1, 2, 3):
            leaves = {f"{p0}.get_update_blocks()": {1, 2, 3}, f"{p0}.get_update_ff()": {3}, x: blk}
            try:
                keep = all(bool(ev_expr(t, leaves)) for t in g.ifs)
            except (AnalysisError, Raised):
                raise AnalysisError(f"{fname}: filter outside the abstract domain: {norm(g.ifs)}")
            nev += 1
            if keep:
                sel.append(blk)
        wantsel = [3] if is_ff else [1, 2]
        cons = f"{fname}: keeps {norm(g.ifs)}"
        if sel != wantsel:
            r.bad(um, fname, cons, f"with blocks {{c1,c2,f}} and update_ff={{f}} the function selects {sel}, expected "
                  f"{wantsel}: {'update_ff blocks are also emitted as always_comb' if not is_ff else 'wrong blocks become always_ff'}",
                  fn.lineno)
        else:
            r.ok(um, fname, cons)
    # (e) emitter: visit_Assign -- operator, sides, and value-equivalence of a chained assignment
    vis = tov_visitor(repo, backend)
    seen_b = set()
    for c, f, o in emissions(lk, vis, 'visit_Assign'):
        if o.kind != 'return' or o.value is None:
            continue
        v = o.value
        segs = []
        for s_ in flatten_add(v):
            if _is_loopcall(s_) and len(s_.args) == 4 and not (isinstance(s_.args[2], ast.List) and not s_.args[2].elts):
                # an append loop that continues a list started before it:  [first] ; for ...: stmts.append(...)
                segs += flatten_add(s_.args[2])
                segs.append(ast.Call(func=s_.func, args=[s_.args[0], s_.args[1], ast.List(elts=[], ctx=ast.Load()), s_.args[3]], keywords=[]))
            else:
                segs.append(s_)
        segs = [s_ for s_ in segs if not (isinstance(s_, ast.List) and not s_.elts)]
        stmts = []          # (template expr, Elementwise or None)
        okshape = True
        for s_ in segs:
            if isinstance(s_, ast.List):
                stmts += [(e, None) for e in s_.elts]
                continue
            ew = elementwise(s_)
            if ew is None or ew.flat or ew.conds or len(ew.names) != 1:
                okshape = False
                break
            stmts.append((ew.elt, ew))
        if not okshape or not stmts or 'node.targets' not in norm(v):
            r.bad(c.mod, fq(c, f), norm(v)[:80], "visit_Assign must return one statement per target of node.targets", o.node.lineno)
            continue
        for tmpl, ew in stmts:
            for var in to_variants(tmpl):
                sk = var.skeleton()
                hs = [h.text for h in hole_list(var.parts)]
                for blocking in (True, False):
                    okc = True
                    for t, p in var.conds:
                        try:
                            val = ev_expr(t, {'node.blocking': blocking})
                        except (AnalysisError, Raised):
                            raise AnalysisError(f"{fq(c, f)}: condition outside the abstract domain: {norm(t)}")
                        nev += 1
                        if bool(val) != p:
                            okc = False
                    if not okc:
                        continue
                    seen_b.add(blocking)
                    want = '⟨0⟩=⟨1⟩;' if blocking else '⟨0⟩<=⟨1⟩;'
                    cons = f"blocking={blocking} -> {sk} {[h[:50] for h in hs]}"
                    rhs_ok = len(hs) == 2 and (hs[1] == 's.visit(node.value)' or 'node.targets' in hs[1] or
                                               (ew is not None and hs[1] == ew.names[0]))
                    lhs_ok = len(hs) == 2 and ((ew is not None and hs[0] == ew.names[0]) or 'node.targets' in hs[0])
                    if sk != want:
                        r.bad(c.mod, fq(c, f), cons, f"a {'blocking (@=)' if blocking else 'non-blocking (<<=)'} assignment must be "
                              f"emitted as `target {'=' if blocking else '<='} value;`", o.node.lineno)
                    elif not (lhs_ok and rhs_ok) or hs[0] == 's.visit(node.value)':
                        r.bad(c.mod, fq(c, f), cons, "left-hand side must be the target, right-hand side the value", o.node.lineno)
                    else:
                        r.ok(c.mod, fq(c, f), cons)
        # chained assignment  t0 = t1 = ... = rhs : Python evaluates rhs once; every target must receive that value
        verdict = None
        for n_t in (2, 3):
            tnames = [f"t{i}" for i in range(n_t)]
            for blocking in (True, False):
                seq = []
                try:
                    for tmpl, ew in stmts:
                        items = [None]
                        if ew is not None:
                            items = list(_ChainEv(tnames, blocking).ev(ew.it))
                        for it_ in items:
                            evx = _ChainEv(tnames, blocking, {ew.names[0]: it_} if ew is not None else {})
                            call = tmpl
                            if not (isinstance(call, ast.Call) and isinstance(call.func, ast.Attribute) and call.func.attr == 'format'):
                                raise AnalysisError("statement template is not a .format() call")
                            kw = {k.arg: k.value for k in call.keywords}
                            if 'target' not in kw or 'value' not in kw:
                                fields = [k for k in kw]
                                raise AnalysisError(f"statement template fields {fields}")
                            seq.append((evx.ev(kw['target']), evx.ev(kw['value'])))
                            nev += 1
                except (AnalysisError, Raised, TypeError, IndexError, KeyError) as e:
                    raise AnalysisError(f"{fq(c, f)}: chained-assignment order outside the abstract domain ({e})")
                if sorted(t for t, _ in seq) != tnames:
                    verdict = verdict or (n_t, blocking, None, seq, "not every target is assigned exactly once")
                    continue
                for reads in [()] + [(t,) for t in tnames]:
                    cur = {t: 'old' for t in tnames}        # value currently held by each target
                    for tgt, src in seq:
                        if src == 'RHS':
                            fresh = all(cur[x] == 'old' for x in reads) or not blocking
                            cur_val = 'orig' if fresh else 'recomputed'
                        else:
                            cur_val = cur[src] if blocking else 'old'
                        if blocking:
                            cur[tgt] = cur_val
                        else:
                            cur[tgt] = cur[tgt]            # non-blocking: visible only after the block
                            cur.setdefault('_nb', {})
                            cur['_nb'][tgt] = cur_val
                    final = cur.get('_nb', {}) if not blocking else {t: cur[t] for t in tnames}
                    wrong = [t for t in tnames if final.get(t) != 'orig']
                    if wrong and verdict is None:
                        verdict = (n_t, blocking, reads, seq, f"{wrong} do not receive the value the right-hand side had before the statement")
        order_txt = ' ; '.join(f"{t} {'=' } {s_}" for t, s_ in seq)
        cons = f"chained assignment -> {order_txt}"
        if verdict:
            n_t, blocking, reads, seq, why = verdict
            chain = ' = '.join(f"t{i}" for i in range(n_t))
            emitted = '; '.join(f"{t} {'=' if blocking else '<='} {'rhs' if s_ == 'RHS' else s_}" for t, s_ in seq)
            r.bad(c.mod, fq(c, f), cons, f"`{chain} = rhs` where rhs reads {list(reads) if reads else 'no target'} is emitted as "
                  f"`{emitted}`: {why} (Python evaluates rhs once and gives every target that value)", o.node.lineno)
        else:
            r.ok(c.mod, fq(c, f), cons)
    if seen_b != {True, False}:
        raise AnalysisError("visit_Assign: blocking / non-blocking forms not both found")
    # (e') a branch / loop body that emits more than one Verilog statement is wrapped in begin ... end
    for hname, fields in (('visit_If', ('orelse',)), ('visit_For', ('body',))):
        chain_ = []
        for c_, f_ in lk.all_defs(vis, hname):
            chain_.append((c_, f_))
            if not any(is_passthrough(x, hname) for x in ast.walk(f_) if isinstance(x, ast.Call)):
                break
        if not chain_:
            continue
        c, f = chain_[-1]
        al = bir_aliases(repo, c.mod)
        tests = []
        for n_ in walk_no_nested(f):
            if isinstance(n_, ast.IfExp) and isinstance(n_.body, ast.Constant) and isinstance(n_.body.value, str) and 'begin' in n_.body.value:
                tests.append(('begin', n_.test, n_))
            elif isinstance(n_, ast.If) and any(isinstance(x, ast.Constant) and x.value == 'end' for st_ in n_.body for x in ast.walk(st_)) \
                    and not any(isinstance(x, (ast.If, ast.For)) for st_ in n_.body for x in ast.walk(st_)):
                tests.append(('end', n_.test, n_))
        judged_here = 0
        for kind, test, node_ in tests:
            # a condition kept in a local (`multi = len( node.body ) > 1`) is judged through its definition
            seen_names = set()
            while isinstance(test, ast.Name) and test.id not in seen_names:
                seen_names.add(test.id)
                rv = reaching_value(test.id, node_)
                if rv is None:
                    break
                test = rv
            fld = [x for x in fields if x in norm(test)]
            if not fld:
                continue
            judged_here += 1
            verdicts = {}
            for label, stmts_ in (('one chained assignment `a = b = x`', [('Assign', 2)]), ('two statements', [('Assign', 1), ('Assign', 1)])):
                try:
                    verdicts[label] = bool(_StmtEv(lk, vis, al, fld[0], stmts_).ev(test))
                    nev += 1
                except (AnalysisError, Raised, TypeError, KeyError, IndexError) as e:
                    raise AnalysisError(f"{fq(c, f)}: begin/end condition outside the abstract domain: {norm(test)[:80]} ({e})")
            cons = f"{hname}: `{kind}` of node.{fld[0]} emitted if {norm(test)}"
            wrong = [k for k, v_ in verdicts.items() if not v_]
            if wrong:
                r.bad(c.mod, fq(c, f), cons, f"for {wrong[0]} as the whole {'else branch' if fld[0] == 'orelse' else 'loop body'} the "
                      f"condition is false although two Verilog statements are emitted: without begin/end only the first one belongs "
                      f"to the {'else' if fld[0] == 'orelse' else 'for'}, the second runs unconditionally", node_.lineno)
            else:
                r.ok(c.mod, fq(c, f), cons)
        if tests and not judged_here:
            raise AnalysisError(f"{fq(c, f)}: the begin/end conditions of {hname} could not be related to node.{fields[0]}")
    # (f) block layout
    block_layout(lk, vis, 'visit_CombUpblk', r, _comb_header, 'combinational')
    block_layout(lk, vis, 'visit_SeqUpblk', r, _seq_header, 'update_ff')
    r.evaluations = nev
    r.require_floor(13 + 2 + 2 + 2 + 2 + 2)
    return r


# ---------------------------------------------------------------------------
def tri(e, leaves, assume=None):
    """three-valued truth of a path condition: True / False / None (not decidable in the abstract domain)"""
    if assume is not None:
        a = assume(e)
        if a is not None:
            return a
    if isinstance(e, ast.BoolOp):
        vals = [tri(v, leaves, assume) for v in e.values]
        if isinstance(e.op, ast.And):
            if any(v is False for v in vals):
                return False
            return True if all(v is True for v in vals) else None
        if any(v is True for v in vals):
            return True
        return False if all(v is False for v in vals) else None
    if isinstance(e, ast.UnaryOp) and isinstance(e.op, ast.Not):
        v = tri(e.operand, leaves, assume)
        return None if v is None else (not v)
    if isinstance(e, ast.IfExp):
        t = tri(e.test, leaves, assume)
        if t is None:
            a, b = tri(e.body, leaves, assume), tri(e.orelse, leaves, assume)
            return a if a == b else None
        return tri(e.body if t else e.orelse, leaves, assume)
    if isinstance(e, ast.Constant):
        return bool(e.value)
    ok, v = try_ev(e, leaves)
    if not ok:
        return None
    return bool(v)


def possible(conds, leaves, assume=None):
    for t, p in conds:
        if p not in (True, False):
            continue
        v = tri(t, leaves, assume)
        if v is not None and v != p:
            return False
    return True


def _vector_operand(e):
    """assumption: operands of extension / truncation / slicing are vectors"""
    if isinstance(e, ast.Call) and norm(e.func) == 'isinstance' and len(e.args) == 2 and norm(e.args[1]).endswith('.Vector'):
        return True
    return None


def _ext_leaves(T, C, hv=False):
    cl = 'node.value.Type.get_dtype().get_length()'
    return {'node.nbits': T, cl: C, 'node.value.upper._value': 2 + C, 'node.value.lower._value': 2,
            "hasattr(node, '_value')": hv, "hasattr(node.value, '_value')": hv, 'node._value': 5, 'node.value._value': 5,
            'node.value.Type.get_dtype().nbits': C}


def _hole_eq(h, leaves, want):
    ok, v = try_ev(h.expr, leaves)
    return ok and v == want


V_VALUE = 's.visit(node.value)'
V_WRAP = 's.visit_expr_wrap(node.value)'


COMPOSITE_KINDS = ('IfExp', 'UnaryOp', 'BinOp', 'Compare')


def select_reaches_expression(variant, leaves):
    """a select `[..]` is appended to the operand's text: which composite operand kinds can still reach this form?
    (evaluated, not matched: a guard like `False and isinstance(..)` excludes nothing)"""
    hl = hole_list(variant.parts)
    sk = variant.skeleton()
    idx = [i for i, h in enumerate(hl) if h.text == V_VALUE]
    if not idx or not re.search(rf"⟨{idx[0]}⟩\[", sk):
        return []
    reach = []
    for kind in COMPOSITE_KINDS:
        def assume(e, kind=kind):
            if isinstance(e, ast.Call) and norm(e.func) == 'isinstance' and len(e.args) == 2 and norm(e.args[0]) == 'node.value':
                t = e.args[1]
                names = [x.attr if isinstance(x, ast.Attribute) else norm(x) for x in (t.elts if isinstance(t, ast.Tuple) else [t])]
                return kind in names
            return _vector_operand(e)
        if possible(variant.conds, leaves, assume):
            reach.append(kind)
    return reach


class _VlogEval:
    """value (mod 2^width) and width of a tiny Verilog expression skeleton: concatenation / replication, sized decimal
    literals, 1'b0 / 1'b1, holes, parentheses and the binary operators ^ & | + - (context-determined width = max)"""
    def __init__(self, sk, hole_vals):
        self.toks = re.findall(r"⟨\d+⟩'d⟨\d+⟩|⟨\d+⟩|\d+'[bd]\d+|[(){},^&|+\-]", sk)
        if ''.join(self.toks) != sk.replace(' ', ''):
            raise AnalysisError(f"expression outside the evaluated Verilog subset: {sk}")
        self.i, self.hv = 0, hole_vals

    def peek(self):
        return self.toks[self.i] if self.i < len(self.toks) else None

    def take(self, t=None):
        x = self.peek()
        if x is None or (t is not None and x != t):
            raise AnalysisError(f"unexpected token {x!r}")
        self.i += 1
        return x

    def expr(self):
        v, w = self.atom()
        while self.peek() in ('^', '&', '|', '+', '-'):
            op = self.take()
            v2, w2 = self.atom()
            w = max(w, w2)
            v = {'^': v ^ v2, '&': v & v2, '|': v | v2, '+': v + v2, '-': v - v2}[op] % (1 << w)
        return v, w

    def hole(self, t):
        return self.hv[int(t[1:-1])]

    def atom(self):
        t = self.take()
        if t == '(':
            r_ = self.expr()
            self.take(')')
            return r_
        if t == '{':
            # replication {n{...}} or concatenation {a, b}
            if re.fullmatch(r"⟨\d+⟩", self.peek() or '') and self.toks[self.i + 1:self.i + 2] == ['{']:
                n_ = self.hole(self.take())[0]
                self.take('{')
                v, w = self.expr()
                self.take('}')
                self.take('}')
                val = 0
                for _ in range(n_):
                    val = (val << w) | v
                return val, w * n_
            parts = [self.expr()]
            while self.peek() == ',':
                self.take()
                parts.append(self.expr())
            self.take('}')
            val, wid = 0, 0
            for v, w in parts:
                val, wid = (val << w) | v, wid + w
            return val, wid
        m = re.fullmatch(r"⟨(\d+)⟩'d⟨(\d+)⟩", t)
        if m:
            w = self.hv[int(m.group(1))][0]
            return self.hv[int(m.group(2))][0] % (1 << w), w
        m = re.fullmatch(r"(\d+)'[bd](\d+)", t)
        if m:
            return int(m.group(2)), int(m.group(1))
        if re.fullmatch(r"⟨\d+⟩", t):
            return self.hole(t)
        raise AnalysisError(f"unexpected token {t!r}")


def sign_extension_counterexample(variant, T, C, leaves):
    """evaluate the emitted form for every operand value: None if it is sign extension C -> T, else (x, got, want)"""
    hl = hole_list(variant.parts)
    sk = variant.skeleton()
    for x in range(1 << C):
        hv = {}
        for i, h in enumerate(hl):
            if h.text == V_VALUE:
                hv[i] = (x, C)
            else:
                ok, val = try_ev(h.expr, leaves)
                if not ok or not isinstance(val, int):
                    raise AnalysisError(f"visit_SignExt: hole `{h.text}` outside the abstract domain")
                hv[i] = (val, 32)
        ev = _VlogEval(sk, hv)
        val, w = ev.expr()
        if ev.peek() is not None:
            raise AnalysisError(f"expression outside the evaluated Verilog subset: {sk}")
        got = val % (1 << T)
        want = x | (((1 << (T - C)) - 1) << C if x >> (C - 1) else 0)
        if got != want:
            return x, got, want
        if w != T:
            # the self-determined width matters as soon as the result is an operand of a comparison / concatenation
            return x, f"{val} in a {w}-bit expression", f"{want} in exactly {T} bits"
    return None


def rule_slice(repo, backend):
    r = RuleResult('R-tr-slice', f"[{backend}] part-selects are emitted [upper-1:lower] / [base +: size]; sign extension replicates "
                                 f"the operand's msb, zero extension pads target-current zeros on the MSB side, truncation "
                                 f"keeps the low bits")
    lk = linker(repo)
    vis = tov_visitor(repo, backend)
    nev = 0
    # ---- behavioural slice
    n_sl = 0
    for c, f, o in emissions(lk, vis, 'visit_Slice'):
        if o.kind != 'return' or o.value is None:
            continue
        for v in to_variants(o.value, o.conds):
            sk = v.skeleton()
            hl = hole_list(v.parts)
            hs = [h.text for h in hl]
            cons = f"visit_Slice -> {sk} {hs}"
            n_sl += 1
            is_idx = any(norm(t) == 'node.base and node.size' and p is True for t, p in v.conds)
            if is_idx:
                ok = sk == '⟨0⟩[⟨1⟩+:⟨2⟩]' and hs[:2] == [V_VALUE, 's.visit(node.base)'] and \
                    all(_hole_eq(hl[2], {'node.size': n}, n) for n in (1, 3, 8))
                nev += 3
                if ok:
                    r.ok(c.mod, fq(c, f), cons)
                else:
                    r.bad(c.mod, fq(c, f), cons, "an indexed part-select must be emitted as value[base +: size] "
                          "(size = number of bits, ascending from base)", o.node.lineno)
                continue
            m = re.fullmatch(r"⟨0⟩\[(.+):⟨(\d+)⟩\]", sk)
            ok = bool(m) and hs[0] == V_VALUE and hs[int(m.group(2))] == 's.visit(node.lower)'
            why = "a constant part-select of x[lower:upper] must be emitted as value[upper-1 : lower]"
            if ok:
                up = m.group(1)
                m1 = re.fullmatch(r"⟨(\d+)⟩'d⟨(\d+)⟩", up)
                m2 = re.fullmatch(r"⟨(\d+)⟩-1", up)
                if m1:
                    hv = hl[int(m1.group(2))]
                    for U in (1, 2, 5, 9):
                        nev += 1
                        if not _hole_eq(hv, {'node.upper._value': U}, U - 1) and not _hole_eq(hv, {'node.upper._value': U}, str(U - 1)):
                            ok = False
                            why = (f"the msb of the part-select is emitted as `{hv.text}`, which is not upper-1 "
                                   f"(x[0:{U}] must select bits {U-1}..0)")
                elif m2:
                    ok = hs[int(m2.group(1))] == 's.visit(node.upper)'
                else:
                    ok = False
            if ok:
                r.ok(c.mod, fq(c, f), cons)
            else:
                r.bad(c.mod, fq(c, f), cons, why, o.node.lineno)
    if n_sl < 3:
        raise AnalysisError("visit_Slice: fewer emitted forms than expected")

    # ---- extensions / truncation / size cast
    def forms(kind):
        out = []
        for c, f, o in emissions(lk, vis, 'visit_' + kind):
            if o.kind != 'return' or o.value is None:
                continue
            for v in to_variants(o.value, o.conds):
                out.append((c, f, o, v))
        if not out:
            raise AnalysisError(f"visit_{kind}: no emitted form found")
        return out

    ZEXT = "{{⟨0⟩{1'b0}},⟨1⟩}"
    SEXT_BIT = "{{⟨0⟩{⟨1⟩[⟨2⟩]}},⟨1⟩}"
    SEXT_ALL = "{{⟨0⟩{⟨1⟩}},⟨1⟩}"
    SEXT_CUT = "{{⟨0⟩{⟨1⟩]}},⟨2⟩}"
    grid_ext = [(T, C) for C in (1, 2, 3) for T in (C, C + 1, C + 3)]
    grid_tr = [(T, C) for C in (1, 2, 4) for T in (1, 2, 4) if T <= C]

    def judge(kind, c, f, o, v, T, C, hv=False):
        """None if the form is right for (T, C) else a message"""
        nonlocal nev
        nev += 1
        lv = _ext_leaves(T, C, hv)
        sk = v.skeleton()
        hl = hole_list(v.parts)
        hs = [h.text for h in hl]
        if sk == '⟨0⟩' and hs in ([V_VALUE], [V_WRAP]):
            if T != C:
                return f"the operand is emitted unchanged although the target width {T} differs from the operand width {C}"
            if hs == [V_VALUE]:
                return ("for equal widths the operand's text takes the place of the whole expression but is not parenthesised: "
                        "trunc(a + b, 8) * c is emitted as a + b * c")
            return None
        if kind in ('ZeroExt', 'SignExt', 'SizeCast') and T > C:
            if kind == 'SignExt':
                if sk == SEXT_BIT and hs[1] == V_VALUE:
                    reach = select_reaches_expression(v, lv)
                    if reach:
                        return (f"the sign bit is selected by appending [msb] to the operand's text, but an operand of kind {reach} "
                                f"can reach this form: sext(a + b, 16) is emitted as {{ {{8{{ a + b[7] }}}}, a + b }}")
                    if not _hole_eq(hl[0], lv, T - C):
                        return f"replication count `{hs[0]}` is not target-current ({T}-{C})"
                    if not _hole_eq(hl[2], lv, C - 1):
                        return f"replicated bit index `{hs[2]}` is not the operand's msb ({C}-1)"
                    return None
                if sk == SEXT_ALL and hs[1] == V_VALUE:
                    if not _hole_eq(hl[0], lv, T - C):
                        return f"replication count `{hs[0]}` is not target-current ({T}-{C})"
                    if C != 1:
                        return (f"the whole {C}-bit operand is replicated {T - C} times instead of its msb (path condition "
                                f"{[(norm(t), p) for t, p in v.conds if 'isinstance' in norm(t)]} does not imply a 1-bit operand)")
                    return None
                if sk == SEXT_CUT and hs[2] == V_VALUE:
                    # text surgery `sig[hi:lo]` -> `sig[hi]`: msb of a constant slice; accepted only under the Slice guard
                    if not _hole_eq(hl[0], lv, T - C):
                        return f"replication count `{hs[0]}` is not target-current ({T}-{C})"
                    if hs[1] != f"{V_VALUE}[:{V_VALUE}.rfind(':')]" or not any(
                            norm(t).startswith('isinstance(node.value,') and norm(t).endswith('.Slice)') and p is True for t, p in v.conds):
                        raise AnalysisError(f"visit_SignExt: unrecognised derivation of the replicated bit: {hs[1]}")
                    return None
                # any other form is judged by what it computes: evaluated modulo 2^N for every operand value
                if V_VALUE in hs and not select_reaches_expression(v, lv) and '[' not in sk.replace("'b", ''):
                    try:
                        cex = sign_extension_counterexample(v, T, C, lv)
                    except AnalysisError as e:
                        return f"sign extension emitted as `{sk}`, which cannot be evaluated ({e})"
                    if cex is None:
                        return None
                    x, got, want = cex
                    return (f"sign extension emitted as `{sk}`: for the {C}-bit operand value {x} it yields {got} in {T} bits, "
                            f"sign extension is {want}")
                return f"sign extension emitted as `{sk}`, expected {{ {{ n {{ msb }} }}, value }} or an equivalent arithmetic form"
            if sk == ZEXT and hs[1] == V_VALUE:
                if not _hole_eq(hl[0], lv, T - C):
                    return f"number of padded zeros `{hs[0]}` is not target-current ({T}-{C})"
                return None
            if kind == 'SizeCast' and sk == "⟨0⟩'(⟨1⟩)" and hs[1] == V_VALUE and _hole_eq(hl[0], lv, T):
                return None
            return f"{kind} to a wider type emitted as `{sk}`; zeros/sign bits must be placed on the MSB side of the operand"
        if kind in ('Truncate', 'SizeCast') and T < C:
            if sk == "⟨0⟩'(⟨1⟩)" and hs[1] == V_VALUE:
                return None if _hole_eq(hl[0], lv, T) else f"cast size `{hs[0]}` is not the target width {T}"
            if sk == '⟨0⟩[⟨1⟩:0]' and hs[0] == V_VALUE:
                reach = select_reaches_expression(v, lv)
                if reach:
                    return (f"the kept range is selected by appending [msb:0] to the operand's text, but an operand of kind {reach} can "
                            f"reach this form: Bits4(a + b) is emitted as a + b[3:0]")
                return None if _hole_eq(hl[1], lv, T - 1) else f"msb of the kept range `{hs[1]}` is not target-1 ({T}-1)"
            return f"truncation emitted as `{sk}`; the low {T} bits of the operand must be kept"
        if T == C:
            if sk == "⟨0⟩'(⟨1⟩)" and hs[1] == V_VALUE and _hole_eq(hl[0], lv, T):
                return None
            return f"`{sk}` emitted for equal widths"
        return f"unexpected form `{sk}` for target {T}, operand {C}"

    grid_sext = [(T, C) for C in (1, 2, 3, 4) for T in range(C, 7)]
    for kind, grid in (('ZeroExt', grid_ext), ('SignExt', grid_sext), ('Truncate', grid_tr)):
        fs = forms(kind)
        reported = set()
        covered = set()
        for T, C in grid:
            lv = _ext_leaves(T, C)
            live = [(c, f, o, v) for c, f, o, v in fs if possible(v.conds, lv, _vector_operand)]
            if not live:
                c, f = fs[0][0], fs[0][1]
                r.bad(c.mod, fq(c, f), f"visit_{kind} target={T} operand={C}", "no emitted form covers this width combination", f.lineno)
                continue
            for c, f, o, v in live:
                msg = judge(kind, c, f, o, v, T, C)
                key = (v.skeleton(), tuple(h.text for h in hole_list(v.parts)), tuple(sorted((norm(t), str(p)) for t, p in v.conds)))
                if msg is None:
                    covered.add(key)
                elif key not in reported:
                    reported.add(key)
                    r.bad(c.mod, fq(c, f), f"visit_{kind} -> {v.skeleton()} {[h.text for h in hole_list(v.parts)][:3]}",
                          f"target width {T}, operand width {C}: {msg}", o.node.lineno)
        for c, f, o, v in fs:
            key = (v.skeleton(), tuple(h.text for h in hole_list(v.parts)), tuple(sorted((norm(t), str(p)) for t, p in v.conds)))
            if key in covered and key not in reported:
                r.ok(c.mod, fq(c, f), f"visit_{kind} -> {v.skeleton()} under {[(norm(t)[:50], p) for t, p in v.conds][-2:]}")
                covered.discard(key)
    # size cast: constant operand -> sized literal; otherwise like extension / truncation
    fs = forms('SizeCast')
    reported, covered = set(), set()
    for hv in (False, True):
        for T, C in [(1, 1), (2, 4), (4, 2), (3, 3), (5, 1)]:
            lv = _ext_leaves(T, C, hv)
            live = [(c, f, o, v) for c, f, o, v in fs if possible(v.conds, lv, _vector_operand)]
            if not live:
                c, f = fs[0][0], fs[0][1]
                r.bad(c.mod, fq(c, f), f"visit_SizeCast target={T} operand={C} const={hv}", "no emitted form covers this case", f.lineno)
            for c, f, o, v in live:
                sk = v.skeleton()
                hl = hole_list(v.parts)
                key = (sk, tuple(h.text for h in hl), tuple(sorted((norm(t), str(p)) for t, p in v.conds)))
                nev += 1
                if hv:
                    ok = sk == "⟨0⟩'d⟨1⟩" and _hole_eq(hl[0], lv, T) and '_value' in hl[1].text
                    msg = None if ok else f"a constant operand must be emitted as a literal sized by the cast width ({T}'d<value>), got `{sk}`"
                    if ok:
                        # the folded constant is a Python int and may be negative (Bits8(-3)): the digits must be its
                        # two's complement at the cast width
                        for u in (-(1 << (T - 1)), -1, 0, 1, (1 << T) - 1):
                            lu = dict(lv)
                            lu.update({'node._value': u, 'node.value._value': u})
                            if not possible(v.conds, lu, _vector_operand):
                                continue
                            nev += 1
                            okv, val = try_ev(hl[1].expr, lu, LIT_FUNCS)
                            if not okv or isinstance(val, bool) or not isinstance(val, int):
                                msg = f"the digits `{hl[1].text}` of the literal cannot be evaluated for the constant {u}"
                                break
                            if val != u % (1 << T):
                                msg = (f"the constant {u} is emitted as {T}'d{val}: a negative Python int must be given in two's "
                                       f"complement ({T}'d{u % (1 << T)}); `{T}'d-1` is not a Verilog literal")
                                break
                else:
                    msg = judge('SizeCast', c, f, o, v, T, C, hv)
                if msg is None:
                    covered.add(key)
                elif key not in reported:
                    reported.add(key)
                    r.bad(c.mod, fq(c, f), f"visit_SizeCast -> {sk} {[h.text for h in hl][:3]}",
                          f"cast to {T} bits of a{' constant' if hv else ''} {C}-bit operand: {msg}", o.node.lineno)
    for c, f, o, v in fs:
        key = (v.skeleton(), tuple(h.text for h in hole_list(v.parts)), tuple(sorted((norm(t), str(p)) for t, p in v.conds)))
        if key in covered and key not in reported:
            r.ok(c.mod, fq(c, f), f"visit_SizeCast -> {v.skeleton()} under {[(norm(t)[:50], p) for t, p in v.conds][-2:]}")
            covered.discard(key)

    # ---- structural part / bit selection
    top = backend_class(repo, backend)
    for hook, want_txt in (('rtlir_tr_part_selection', 'part'), ('rtlir_tr_bit_selection', 'bit')):
        c, f = lk.find(top, hook)
        ex, outs = sym_run(f)
        params = [a.arg for a in f.args.args][1:]
        for o in outs:
            if o.kind != 'return' or o.value is None:
                continue
            tmpls = []
            v = o.value
            if isinstance(v, ast.Call) and norm(v.func) == 's._rtlir_tr_process_unpacked':
                tmpls = [v.args[0], v.args[1]]
            else:
                tmpls = [v]
            # yosys: the text used for the connection is assembled from deq[-1]: template fragment + appended values
            frag = [(norm(t), val) for t, op, val, cs in o.stores if op is not None and "['s_index']" in norm(t)]
            apps = [c_ for c_, cs in o.calls if isinstance(c_, ast.Call) and isinstance(c_.func, ast.Attribute)
                    and c_.func.attr == 'append' and "['index']" in norm(c_.func.value)]
            if frag or apps:
                cons = f"{hook}: {[norm(x[1]) for x in frag]} <- {[norm(a.args[0]) for a in apps]}"
                okq = len(frag) == 1 and isinstance(frag[0][1], ast.Constant)
                if okq and want_txt == 'part':
                    okq = frag[0][1].value == '[{}:{}]' and len(apps) == 2
                    for S, A in ((4, 0), (8, 3)):
                        nev += 1
                        lv = {params[1]: A, params[2]: S}
                        okq = okq and _hole_eq(Hole(apps[0].args[0]), lv, S - 1) and _hole_eq(Hole(apps[1].args[0]), lv, A)
                elif okq:
                    okq = frag[0][1].value == '[{}]' and len(apps) == 1 and norm(apps[0].args[0]) in (f"int({params[1]})", params[1])
                if okq:
                    r.ok(c.mod, fq(c, f), cons)
                else:
                    r.bad(c.mod, fq(c, f), cons, "connection text of a part-select must be [stop-1:start] (bit-select [index]) "
                          "on the signal", o.node.lineno)
                continue
            for t in tmpls:
                for var in to_variants(t):
                    sk = var.skeleton()
                    hl = hole_list(var.parts)
                    cons = f"{hook} -> {sk} {[h.text for h in hl]}"
                    if want_txt == 'part':
                        okq = sk in ('⟨0⟩[⟨1⟩:⟨2⟩]', '⟨0⟩{}[⟨1⟩:⟨2⟩]') and hl[0].text == params[0]
                        for S, A in ((4, 0), (8, 3)):
                            nev += 1
                            lv = {params[1]: A, params[2]: S}
                            okq = okq and _hole_eq(hl[1], lv, S - 1) and _hole_eq(hl[2], lv, A)
                        msg = "a connection to x[start:stop] must be emitted as x[stop-1:start]"
                    else:
                        okq = sk in ('⟨0⟩[⟨1⟩]', '⟨0⟩{}[⟨1⟩]') and [h.text for h in hl] == [params[0], params[1]]
                        msg = "a connection to bit i must be emitted as x[i]"
                    if okq:
                        r.ok(c.mod, fq(c, f), cons)
                    else:
                        r.bad(c.mod, fq(c, f), cons, msg, o.node.lineno)
    r.evaluations = nev
    r.require_floor(3 + 2 + 3 + 2 + 2 + 2)
    return r


# ---------------------------------------------------------------------------
NODE_W = 'node.Type.get_dtype().get_length()'
_SIZED = re.compile(r"^⟨(\d+)⟩'(\(.+\)|d.+)$")


def sized_width(variant):
    """text of the width hole if the emitted form is `<W>'( ... )` / `<W>'d...`, else None"""
    m = _SIZED.match(variant.skeleton())
    if not m:
        return None
    return hole_list(variant.parts)[int(m.group(1))].text


class _RangeEv(_Ev):
    def ev_Call(self, e):
        name = norm(e.func)
        if name == 'list' and len(e.args) == 1:
            return list(self.ev(e.args[0]))
        if name == 'range':
            return range(*[self.ev(a) for a in e.args])
        return super().ev_Call(e)

    def ev_List(self, e):
        return [self.ev(x) for x in e.elts]


_DEC_LIT = re.compile(r"⟨(\d+)⟩'d⟨(\d+)⟩")


def decimal_literal_problem(variant):
    """`<W>'d<V>`: V must be formatted from an int; an object whose str()/format() is not decimal (Bits prints hex digits)
    changes the value (Bits8(16) -> 8'd10).  Returns a message or None"""
    hl = hole_list(variant.parts)
    for m in _DEC_LIT.finditer(variant.skeleton()):
        h = hl[int(m.group(2))]
        t = h.text
        if _int_sources(h.expr) or t.endswith('.uint()') or re.search(r"\._value$", t):
            continue
        return (f"the literal's digits are produced by formatting `{t}` without converting it with int() (path conditions "
                f"{[(norm(c)[:50], p) for c, p in variant.conds][-2:]}): a Bits object prints hexadecimal digits (16 -> 'd10) and a "
                f"bool prints True / False (s.EN = True -> 1'dTrue)")
    return None


def _bits_value(n, v):
    return int(v) % (1 << int(n))


LIT_FUNCS = {'Bits': _bits_value}


def _int_sources(e):
    """the expressions X converted by int( X ) inside e (a Bits( n, X ) wrapper is looked through)"""
    out = []
    for c in ast.walk(e):
        if isinstance(c, ast.Call) and isinstance(c.func, ast.Name) and c.func.id == 'int' and len(c.args) == 1 and not c.keywords:
            x = c.args[0]
            while isinstance(x, ast.Call) and isinstance(x.func, ast.Name) and x.func.id in ('Bits', 'int') and x.args:
                x = x.args[-1]
            if norm(x) not in [norm(y) for y in out]:
                out.append(x)
    return out


def literal_value_problem(variant, assume=None, raw_value_ok=True):
    """`<W>'d<V>` whose V is a Python int the user supplied: a negative value has no decimal literal (<W>'d-1 is not Verilog),
    so on every path V must be int() of the value AND be brought into 0 .. 2**W-1 (two's complement: += 1 << W when negative,
    % (1 << W), & mask, int(Bits(W, v))).  The digits are evaluated for a few (W, value); values taken from a Bits object
    (isinstance(.., Bits) on the path, .uint(), the type checker's _value) are non-negative by construction.
    Returns a message or None"""
    dp = decimal_literal_problem(variant)
    if dp is not None:
        return dp
    hl = hole_list(variant.parts)
    for m in _DEC_LIT.finditer(variant.skeleton()):
        hw, hv = hl[int(m.group(1))], hl[int(m.group(2))]
        t = hv.text
        srcs = _int_sources(hv.expr)
        if not srcs:
            if raw_value_ok:
                continue                   # .uint() / ._value: a Bits value
            srcs = [hv.expr]
        if len(srcs) != 1:
            return f"the literal's digits `{t}` convert more than one value with int(): not a form this rule can evaluate"
        src = norm(srcs[0])
        if any(p is True and re.fullmatch(r"isinstance\(%s, (\w+\.)?Bits\w*\)" % re.escape(src), norm(c)) for c, p in variant.conds
               if not isinstance(c, str)):
            continue                       # a Bits object: 0 <= int(obj) < 2**nbits
        n_live = 0
        for W in (1, 3, 8):
            for u in (-(1 << (W - 1)), -1, 0, 1, (1 << W) - 1):
                lv = {hw.text: W, src: u}
                if not possible(variant.conds, lv, assume):
                    continue
                n_live += 1
                ok, val = try_ev(hv.expr, lv, LIT_FUNCS)
                if not ok or isinstance(val, bool) or not isinstance(val, int):
                    return (f"the literal's digits `{t}` cannot be evaluated for width {W}, value {u}: not a recognised way of "
                            f"producing a non-negative decimal")
                if not (0 <= val < (1 << W)) or val != u % (1 << W):
                    return (f"for a {W}-bit constant of value {u} the literal is {W}'d{val}: a negative Python int must be "
                            f"emitted in two's complement ({W}'d{u % (1 << W)}); `{W}'d-1` is not a Verilog literal and the "
                            f"simulator computes with {u % (1 << W)}")
        if n_live == 0:
            return f"the literal's digits `{t}`: no value reaches this form in the abstract domain"
    return None


def rule_width_cast(repo, backend):
    r = RuleResult('R-tr-width-cast', f"[{backend}] every implicitly sized term (number, free variable, loop variable, implicit "
                                      f"temporary, constant attribute) is emitted with an explicit size taken from node.Type, "
                                      f"so SV context-determined sizing cannot differ from the type checker's width")
    lk = linker(repo)
    vis = tov_visitor(repo, backend)
    nev = 0

    def cond_true(v, pat):
        return any(p is True and re.search(pat, norm(t)) for t, p in v.conds)

    for kind in ('Number', 'FreeVar', 'LoopVar'):
        n = 0
        for c, f, o in emissions(lk, vis, 'visit_' + kind):
            if o.kind != 'return' or o.value is None:
                continue
            for v in to_variants(o.value, o.conds):
                n += 1
                w = sized_width(v)
                cons = f"visit_{kind} -> {v.skeleton()} {[h.text for h in hole_list(v.parts)]}"
                okw = w == NODE_W or (w == 'node.obj.nbits' and cond_true(v, r'isinstance\(node\.obj, Bits\)'))
                dp = literal_value_problem(v)
                nev += 15
                if dp is not None:
                    guard = [f"{norm(t_)[:60]}={p_}" for t_, p_ in v.conds if 'isinstance' in norm(t_)][-1:]
                    r.bad(c.mod, fq(c, f), cons + (f" under {guard[0]}" if guard else ''), dp, o.node.lineno)
                elif w is None:
                    r.bad(c.mod, fq(c, f), cons, f"a {kind} is emitted without an explicit size: Verilog sizes it from the "
                          f"context (32 bits for integers), not with the width the type checker inferred", o.node.lineno)
                elif not okw:
                    r.bad(c.mod, fq(c, f), cons, f"the size `{w}` is not the node's inferred width ({NODE_W})", o.node.lineno)
                else:
                    r.ok(c.mod, fq(c, f), cons)
        if n == 0:
            raise AnalysisError(f"visit_{kind}: no emitted form")
    # temporaries
    fs = []
    for c, f, o in emissions(lk, vis, 'visit_TmpVar'):
        if o.kind == 'return' and o.value is not None:
            fs.extend((c, f, o, v) for v in to_variants(o.value, o.conds))
    if not fs:
        raise AnalysisError("visit_TmpVar: no emitted form")
    for explicit in (False, True):
        for lhs in (False, True):
            lv = {'node._is_explicit': explicit, 's.is_assign_LHS': lhs}
            live = [x for x in fs if possible(x[3].conds, lv)]
            nev += len(fs)
            for c, f, o, v in live:
                w = sized_width(v)
                cons = f"visit_TmpVar explicit={explicit} lhs={lhs} -> {v.skeleton()}"
                if lhs and w is not None:
                    r.bad(c.mod, fq(c, f), cons, "a temporary on the left-hand side of an assignment is wrapped in a size cast "
                          "(not assignable)", o.node.lineno)
                elif not lhs and not explicit and w != NODE_W:
                    r.bad(c.mod, fq(c, f), cons, "an implicitly sized temporary is read without the explicit size the type "
                          "checker gave it", o.node.lineno)
                else:
                    r.ok(c.mod, fq(c, f), cons, nontrivial=not explicit)
    # constant attributes: every emission reachable for a constant integer attribute must be sized
    def scen(truths):
        def assume(e):
            t = norm(e)
            for pat, val in truths:
                if re.fullmatch(pat, t):
                    return val
            return None
        return assume
    SC_COMP = scen([(r"isinstance\(node\.Type, \w+\.Const\)", True), (r"isinstance\(node\.Type\.get_dtype\(\), \w+\.Vector\)", True),
                    (r"isinstance\(node\.value, \w+\.Base\)", True), (r"isinstance\(node\.value\.Type, \w+\.Component\)", True),
                    (r"isinstance\(node\.value\.Type, \w+\.(Signal|InterfaceView|Const)\)", False),
                    (r"isinstance\(node\.Type\.get_object\(\), int\)", True), (r"isinstance\(node\.Type\.get_object\(\), Bits\)", False),
                    (r"is_bitstruct_inst\(.*\)", False)])
    SC_FIELD = scen([(r"isinstance\(node\.Type, \w+\.Const\)", True), (r"isinstance\(node\.Type\.get_dtype\(\), \w+\.Vector\)", True),
                     (r"isinstance\(node\.value, \w+\.Base\)", False), (r"isinstance\(node\.value\.Type, \w+\.(Component|InterfaceView)\)", False),
                     (r"isinstance\(node\.value\.Type, \w+\.(Signal|Const)\)", True),
                     (r"isinstance\(node\.value\.Type\.get_dtype\(\), \w+\.Struct\)", True),
                     (r"isinstance\(node\.Type\.get_object\(\), Bits\)", True), (r"isinstance\(node\.Type\.get_object\(\), int\)", False),
                     (r"node\.Type\.get_object\(\) is None", False), (r"is_bitstruct_inst\(.*\)", False)])
    SC_COMP_BITS = scen([(r"isinstance\(node\.Type, \w+\.Const\)", True), (r"isinstance\(node\.Type\.get_dtype\(\), \w+\.Vector\)", True),
                         (r"isinstance\(node\.value, \w+\.Base\)", True), (r"isinstance\(node\.value\.Type, \w+\.Component\)", True),
                         (r"isinstance\(node\.value\.Type, \w+\.(Signal|InterfaceView|Const)\)", False),
                         (r"isinstance\(node\.Type\.get_object\(\), int\)", False), (r"isinstance\(node\.Type\.get_object\(\), Bits\)", True),
                         (r"is_bitstruct_inst\(.*\)", False)])
    att = emissions(lk, vis, 'visit_Attribute')
    for label, assume in (('component constant s.K', SC_COMP), ('component constant s.K of a Bits type', SC_COMP_BITS),
                          ('field of a constant struct s.K.f', SC_FIELD)):
        n_live = 0
        for c, f, o in att:
            if o.kind != 'return' or o.value is None:
                continue
            if any(p == 'except' for t, p in o.conds):
                continue
            stores = [(t, val) for t, op, val, cs in o.stores if op is None and norm(t) == "node.sexpr['s_attr']"]
            exprs = [val for t, val in stores[-1:]] if stores else [o.value]
            for e in exprs:
                for v in to_variants(e, o.conds):
                    if not possible(v.conds, {}, assume):
                        continue
                    n_live += 1
                    nev += 1
                    w = sized_width(v)
                    hl = hole_list(v.parts)
                    cons = f"visit_Attribute [{label}] -> {v.skeleton()} {[h.text[:60] for h in hl]}"
                    if w is None and len(hl) == 1 and isinstance(hl[0].expr, ast.Call) and norm(hl[0].expr.func) == 's._literal_number':
                        w = 'literal'
                    dp = literal_value_problem(v, assume)
                    if dp is not None:
                        r.bad(c.mod, fq(c, f), cons, dp, o.node.lineno)
                    elif w is None:
                        r.bad(c.mod, fq(c, f), cons, "a constant integer attribute is emitted without an explicit size "
                              "(context-determined sizing, e.g. 32-bit arithmetic instead of the checked width)", o.node.lineno)
                    elif w not in (NODE_W, 'literal'):
                        r.bad(c.mod, fq(c, f), cons, f"the size `{w}` is not the attribute's inferred width", o.node.lineno)
                    else:
                        r.ok(c.mod, fq(c, f), cons)
        if n_live == 0:
            r.bad(vis.mod, vis.name + '.visit_Attribute', label, "no emission is reachable for this kind of constant attribute", 0)
    # the visitor's own literal helper (struct fields of constants)
    res = lk.find(vis, '_literal_number')
    if res is not None:
        c, f = res
        ps = [a.arg for a in f.args.args][1:]
        ex, outs = sym_run(f)
        for o in outs:
            if o.kind == 'return' and o.value is not None:
                for v in to_variants(o.value, o.conds):
                    hl = hole_list(v.parts)
                    cons = f"visitor _literal_number -> {v.skeleton()} {[h.text for h in hl]}"
                    if v.conds:
                        cons += f" under {[(norm(t_)[:40], p_) for t_, p_ in v.conds][-1:]}"
                    dp = literal_value_problem(v, raw_value_ok=False)
                    nev += 15
                    if len(ps) < 2 or not (sized_width(v) == ps[0] and len(hl) > 1 and re.search(r"\b%s\b" % re.escape(ps[1]), hl[1].text)):
                        r.bad(c.mod, fq(c, f), cons, "a literal must be emitted as <nbits>'d<value>", o.node.lineno)
                    elif dp is not None:
                        r.bad(c.mod, fq(c, f), cons, dp, o.node.lineno)
                    else:
                        r.ok(c.mod, fq(c, f), cons)
    # use of a declared constant: the declaration holds the two's complement of the value at the constant's OWN width Wk; the
    # use widens it to the node's width N, so a negative constant must be sign-extended and a non-negative one must not
    def own_width(val):
        if -1 <= val <= 1:
            return 1
        return (abs(val) - 1).bit_length() + 1 if val < 0 else val.bit_length()
    uses = []
    for c, f, o in emissions(lk, vis, 'visit_FreeVar'):
        if o.kind == 'return' and o.value is not None:
            uses.extend((c, f, o, v) for v in to_variants(o.value, o.conds) if '__const__' in v.skeleton())
    judged = {}
    for val in (-8, -5, -2, -1, 0, 1, 2, 3, 5, 7):
        Wk = own_width(val)
        decl = val % (1 << Wk)
        for N in (Wk, Wk + 1, Wk + 4):
            lv = {'node.obj': val, 'isinstance(node.obj, int)': True, NODE_W: N}
            live = [x for x in uses if possible(x[3].conds, lv, lambda e: False if re.fullmatch(r"isinstance\(node\.obj, (\w+\.)?Bits\w*\)", norm(e)) else None)]
            if uses and not live:
                c, f = uses[0][0], uses[0][1]
                r.bad(c.mod, fq(c, f), f"visit_FreeVar use of an int constant", f"no emitted form covers the constant {val}", f.lineno)
            for c, f, o, v in live:
                nev += 1
                sk = v.skeleton()
                key = (sk, tuple(h.text for h in hole_list(v.parts)), tuple((norm(t_), str(p_)) for t_, p_ in v.conds))
                if judged.get(key):
                    continue
                m = re.fullmatch(r"⟨(\d+)⟩'\((\$signed\()?__const__⟨\d+⟩\)?\)", sk)
                if not m or sk.count('(') != sk.count(')') or not _hole_eq(hole_list(v.parts)[int(m.group(1))], lv, N):
                    judged[key] = (c, f, o, v, f"the use of a declared constant must be N'( __const__name ) or N'( $signed( __const__name ) ) "
                                                f"with N the node's width, got `{sk}`")
                    continue
                if m.group(2):
                    got = (decl - (1 << Wk) if decl >> (Wk - 1) else decl) % (1 << N)
                else:
                    got = decl % (1 << N)
                if got != val % (1 << N):
                    judged[key] = (c, f, o, v, f"the constant {val} is declared as {Wk}'d{decl} (two's complement at its own width); "
                                   f"used at {N} bits this form {'sign' if m.group(2) else 'zero'}-extends it to {got}, the simulator "
                                   f"computes with {val % (1 << N)}: a negative constant needs $signed inside the size cast, a "
                                   f"non-negative one must not have it")
                else:
                    judged.setdefault(key, None)
    seen_keys = set()
    for c, f, o, v in uses:
        key = (v.skeleton(), tuple(h.text for h in hole_list(v.parts)), tuple((norm(t_), str(p_)) for t_, p_ in v.conds))
        if key in seen_keys or key not in judged:
            continue
        seen_keys.add(key)
        cons = f"visit_FreeVar use -> {v.skeleton()} under {[(norm(t_)[:50], p_) for t_, p_ in v.conds][-1:]}"
        if judged[key] is None:
            r.ok(c.mod, fq(c, f), cons)
        else:
            r.bad(c.mod, fq(c, f), cons, judged[key][4], o.node.lineno)
    if backend == 'sv' and not uses:
        raise AnalysisError("visit_FreeVar: no use of a declared constant found")
    # constant array elements (yosys inlines them)
    for c, f, o in emissions(lk, vis, 'visit_Index'):
        if o.kind != 'return':
            continue
        for t, op, val, cs in o.stores:
            if op is None and norm(t) == "node.sexpr['s_index']" and not (isinstance(val, ast.Constant) and val.value == ''):
                for v in to_variants(val, o.conds):
                    cons = f"visit_Index (constant array) -> {v.skeleton()}"
                    if sized_width(v) is None:
                        r.bad(c.mod, fq(c, f), cons, "an inlined constant array element is emitted without a size", o.node.lineno)
                    else:
                        r.ok(c.mod, fq(c, f), cons)
    # structural literals
    top = backend_class(repo, backend)
    c, f = lk.find(top, '_literal_number') or (None, None)
    if f is None:
        raise AnalysisError("anchor vanished: _literal_number")
    ps = [a.arg for a in f.args.args][1:]
    ex, outs = sym_run(f)
    for o in outs:
        if o.kind == 'return' and o.value is not None:
            for v in to_variants(o.value):
                cons = f"_literal_number -> {v.skeleton()} {[h.text for h in hole_list(v.parts)]}"
                if v.conds:
                    cons += f" under {[(norm(t_)[:40], p_) for t_, p_ in v.conds][-1:]}"
                hl = hole_list(v.parts)
                dp = literal_value_problem(v, raw_value_ok=False)
                nev += 15
                if not (sized_width(v) == ps[0] and len(hl) > 1 and re.search(r"\b%s\b" % re.escape(ps[1]), hl[1].text)):
                    r.bad(c.mod, fq(c, f), cons, "literals of connections must be emitted as <nbits>'d<value>", o.node.lineno)
                elif dp is not None:
                    r.bad(c.mod, fq(c, f), cons, dp, o.node.lineno)
                else:
                    r.ok(c.mod, fq(c, f), cons)
    # loop variable width in the type checker: bits needed for the largest value of the range
    tcv = typecheck_visitor(repo, backend)
    res = lk.find(tcv, 'visit_For')
    if res is None:
        raise AnalysisError("anchor vanished: type checker visit_For")
    c, f = res
    ex, outs = sym_run(f)
    widths = []
    for o in outs:
        if o.kind != 'fall':
            continue
        for t, op, val, cs in o.stores:
            if op is None and norm(t).startswith('s.loopvar_nbits['):
                widths.append((o, val))
    if not widths:
        raise AnalysisError(f"{fq(c, f)}: store of the loop variable width not found")
    bad = None
    n_ok = 0
    for o, val in widths:
        for (a, b, st) in ((0, 4, 1), (3, 0, -1), (1, 6, 2), (6, 1, -2), (0, 1, 1), (7, 2, -1)):
            lv = {'node.start._value': a, 'node.end._value': b, 'node.step._value': st,
                  "hasattr(node.start, '_value')": True, "hasattr(node.end, '_value')": True, "hasattr(node.step, '_value')": True}
            try:
                got = _RangeEv(lv, funcs={'s._get_nbits_from_value': lambda v: ('nbits', v)}).ev(val)
            except (AnalysisError, Raised, TypeError, ValueError, IndexError) as e:
                raise AnalysisError(f"{fq(c, f)}: loop width expression outside the abstract domain: {norm(val)[:80]}")
            nev += 1
            want = ('nbits', max(range(a, b, st)))
            if got != want:
                bad = (a, b, st, got, want)
            else:
                n_ok += 1
    cons = f"loop index width = {norm(widths[0][1])[:150]}"
    if bad:
        a, b, st, got, want = bad
        r.bad(c.mod, fq(c, f), cons, f"for range({a}, {b}, {st}) the loop index is sized for {got[1] if isinstance(got, tuple) else got}, "
              f"the largest value it takes is {want[1]}: the sized cast N'(i) truncates the index", f.lineno)
    else:
        r.ok(c.mod, fq(c, f), cons)
    r.evaluations = nev
    r.require_floor(3 + 4 + 1 + 1 + 1)
    return r


# ---------------------------------------------------------------------------
def _ref_host(W, R, WP, RP):
    """specification of the hosting component of an adjacency edge (writer u, reader v)"""
    if W == R:
        return W
    if WP == R:
        return R
    if W == RP:
        return W
    if WP == RP:
        return WP
    return 'raise'


def rule_conn(repo, backend):
    r = RuleResult('R-tr-conn', f"[{backend}] every adjacency edge is attributed to exactly one hosting component by the four-case "
                                f"host relation; connections keep (writer, reader) orientation down to `assign reader = writer`")
    lk = linker(repo)
    nev = 0
    m = repo.mod(G_S1)
    fn = m.functions.get('gen_connections')
    if fn is None:
        raise AnalysisError("anchor vanished: gen_connections")
    # locate the decision chain: the if/elif whose branches add (u, v) to the result dictionary
    adds = [n for n in ast.walk(fn) if isinstance(n, ast.Call) and isinstance(n.func, ast.Attribute) and n.func.attr == 'add'
            and isinstance(n.func.value, ast.Subscript) and len(n.args) == 1 and isinstance(n.args[0], ast.Tuple)]
    if len(adds) < 2:
        raise AnalysisError("gen_connections: host decision chain not found")
    chain = None
    for n in ast.walk(fn):
        if isinstance(n, ast.If) and not isinstance(parent(n), ast.If) or \
                (isinstance(n, ast.If) and n not in getattr(parent(n), 'orelse', [])):
            inside = [a for a in adds if any(a is x for x in ast.walk(n))]
            if len(inside) == len(adds):
                if chain is None or any(n is x for x in ast.walk(chain)):
                    chain = n
    if chain is None:
        raise AnalysisError("gen_connections: host decision chain not found")
    # names of the four hosts: reaching definitions inside the function
    defs = {}
    for n in ast.walk(fn):
        if isinstance(n, ast.Assign) and len(n.targets) == 1 and isinstance(n.targets[0], ast.Name):
            defs[n.targets[0].id] = n.value
    loopvars = [n for n in ast.walk(fn) if isinstance(n, ast.For)]
    roles = {}
    for name, val in defs.items():
        t = norm(val)
        mm = re.fullmatch(r"(\w+)\.get_host_component\(\)", t)
        if mm:
            roles[name] = ('host', mm.group(1))
    for name, val in defs.items():
        t = norm(val)
        mm = re.fullmatch(r"(\w+)\.get_parent_object\(\)", t)
        if mm and mm.group(1) in roles:
            roles[name] = ('parent', roles[mm.group(1)][1])
    # which signal is the writer-side one: the popped / outer element `u`, the adjacency element `v`
    edge = [norm(a.args[0]) for a in adds]
    if len(set(edge)) != 1:
        r.bad(m, 'gen_connections', f"edges {sorted(set(edge))}", "branches record differently oriented edges", chain.lineno)
    tup = adds[0].args[0]
    u, v = norm(tup.elts[0]), norm(tup.elts[1])
    inner_for = [n for n in loopvars if norm(n.target) == v]
    if not inner_for or u not in norm(inner_for[0].iter):
        r.bad(m, 'gen_connections', f"edge ({u}, {v})", f"the recorded edge is not (signal reached from the writer, its "
              f"adjacent signal): assign direction of the emitted connection is reversed", chain.lineno)
    else:
        r.ok(m, 'gen_connections', f"edge ({u}, {v}) with {v} in adjacency of {u}")
    sym = {}
    for name, (kind, sig_) in roles.items():
        sym[name] = {('host', u): 'W', ('host', v): 'R', ('parent', u): 'WP', ('parent', v): 'RP'}.get((kind, sig_))
    if sorted(x for x in sym.values() if x) != ['R', 'RP', 'W', 'WP']:
        raise AnalysisError(f"gen_connections: cannot identify writer/reader hosts and parents ({roles})")
    # flatten chain into (test, host-key expression | 'raise')
    branches = []
    cur = chain
    while True:
        body_adds = [a for a in adds if any(a is x for s_ in cur.body for x in ast.walk(s_))]
        if len(body_adds) == 1:
            branches.append((cur.test, norm(body_adds[0].func.value.slice)))
        elif always_exits(cur.body) and exit_kind(cur.body) == {'raise'}:
            branches.append((cur.test, 'raise'))
        elif not body_adds:
            branches.append((cur.test, 'drop'))
        else:
            raise AnalysisError("gen_connections: branch outside the expected shape")
        if len(cur.orelse) == 1 and isinstance(cur.orelse[0], ast.If):
            cur = cur.orelse[0]
            continue
        if cur.orelse:
            oa = [a for a in adds if any(a is x for s_ in cur.orelse for x in ast.walk(s_))]
            if len(oa) == 1:
                branches.append((None, norm(oa[0].func.value.slice)))
            elif always_exits(cur.orelse) and exit_kind(cur.orelse) == {'raise'}:
                branches.append((None, 'raise'))
            elif not oa:
                branches.append((None, 'drop'))
            else:
                raise AnalysisError("gen_connections: else branch outside the expected shape")
        else:
            branches.append((None, 'drop'))
        break
    mism = None
    n_cfg = 0
    for W, R, WP, RP in itertools.product(range(4), repeat=4):
        # tree consistency: a component is not its own parent; equal components have equal parents
        if WP == W or RP == R or (W == R and WP != RP):
            continue
        # no parent cycles between the two
        if WP == R and RP == W:
            continue
        n_cfg += 1
        env = {}
        for name, role in sym.items():
            if role:
                env[name] = {'W': W, 'R': R, 'WP': WP, 'RP': RP}[role]
        got = None
        for test, key in branches:
            nev += 1
            if test is None:
                val = True
            else:
                try:
                    val = Evaluator(env).ev(test)
                except AnalysisError as e:
                    raise AnalysisError(f"gen_connections: test outside the abstract domain: {norm(test)}")
            if val:
                got = 'raise' if key == 'raise' else ('drop' if key == 'drop' else env.get(key, '?'))
                break
        want = _ref_host(W, R, WP, RP)
        if got != want and mism is None:
            mism = (W, R, WP, RP, got, want)
    cons = ' / '.join(f"{norm(t) if t is not None else 'else'} -> {k}" for t, k in branches)
    if mism:
        W, R, WP, RP, got, want = mism
        r.bad(m, 'gen_connections', cons, f"with writer host {W} (parent {WP}) and reader host {R} (parent {RP}) the edge is "
              f"attributed to {got}, the component that contains both ends' declarations is {want}: the connection is emitted "
              f"in a module where one of the signals does not exist, or is dropped", chain.lineno)
    else:
        r.ok(m, 'gen_connections', cons, note=f"{n_cfg} host configurations")
    # each reader visited once: `if v not in visited: visited.add(v)` dominates the chain
    g = [x for x in guards_of(chain) if x.kind == 'if' and x.polarity is True and norm(x.test) == f"{v} not in visited"]
    vadd = [n for n in ast.walk(fn) if isinstance(n, ast.Call) and norm(n.func) == 'visited.add' and norm(n.args[0]) == v]
    if g and vadd:
        r.ok(m, 'gen_connections', f"{v} not in visited -> visited.add({v})", nontrivial=False)
    else:
        r.bad(m, 'gen_connections', 'visited guard', "an edge of the net is recorded once per traversal only if its reader end "
              "is marked visited before it is expanded", chain.lineno)

    # ---- StructuralRTLIRGenL1Pass: order and orientation
    gm = repo.mod(SGEN1)
    gf = gm.get_func('StructuralRTLIRGenL1Pass._gen_metadata')
    ex, outs = sym_run(gf, rename=True)
    conn_calls = []
    for o in outs:
        for cl, cs in o.calls:
            if isinstance(cl, ast.Call) and isinstance(cl.func, ast.Attribute) and cl.func.attr == 'set_metadata' \
                    and len(cl.args) == 2 and norm(cl.args[0]).endswith('.connections'):
                conn_calls.append((o, cl.args[1]))
    if not conn_calls:
        raise AnalysisError("_gen_metadata: connections metadata not found")
    for o, val in conn_calls[:1]:
        ew = elementwise(val)
        ok = ew is not None and not ew.flat and not ew.conds and len(ew.names) == 1
        msg = "connections must be generated in get_connect_order() order as (writer expr, reader expr) pairs"
        if ok:
            class _G:
                pass
            g = _G()
            g.iter = ew.it
            x = ew.names[0]
            elt = ew.elt
            ok = isinstance(elt, ast.Tuple) and len(elt.elts) == 2 and \
                [norm(e.args[1]) if isinstance(e, ast.Call) and len(e.args) == 2 else None for e in elt.elts] == [f"{x}[0]", f"{x}[1]"] \
                and all(isinstance(e, ast.Call) and norm(e.func) == 'gen_signal_expr' for e in elt.elts)
            it = norm(g.iter)
            ok = ok and 'get_connect_order()' in it and 'sorted' not in it and 'set(' not in it and 'reversed' not in it
        cons = f"connections = {norm(val)[:140]}"
        if ok:
            r.ok(gm, 'StructuralRTLIRGenL1Pass._gen_metadata', cons[:200])
        else:
            r.bad(gm, 'StructuralRTLIRGenL1Pass._gen_metadata', cons[:200], msg, gf.lineno)
    # orientation fix-up: a pair not in the host's edge set is flipped (x[1], x[0]) and must then be present
    flips = [n for n in ast.walk(gf) if isinstance(n, ast.Assign) and isinstance(n.value, ast.Tuple) and len(n.value.elts) == 2
             and isinstance(n.value.elts[0], ast.Subscript) and isinstance(n.value.elts[1], ast.Subscript)]
    okf = False
    for fl in flips:
        a, b = fl.value.elts
        if norm(a.value) == norm(b.value) and norm(a.slice) == '1' and norm(b.slice) == '0':
            gs = [g_ for g_ in guards_of(fl) if g_.kind == 'if' and g_.polarity is True and ' not in ' in norm(g_.test)]
            if gs:
                okf = True
    if okf:
        r.ok(gm, 'StructuralRTLIRGenL1Pass._gen_metadata', "pair not in host edge set -> flipped (x[1], x[0])")
    else:
        r.bad(gm, 'StructuralRTLIRGenL1Pass._gen_metadata', 'orientation fix-up', "connect() order pairs must be re-oriented "
              "to (writer side, reader side) using the net traversal's edge set", gf.lineno)

    # ---- translate_connections -> hook -> text
    top = backend_class(repo, backend)
    c, f = lk.find(top, 'translate_connections')
    ex, outs = sym_run(f)
    found = []
    for o in outs:
        exprs = [val for t, op, val, cs in o.stores] + [cl for cl, cs in o.calls] + ([o.value] if o.value is not None else []) + \
            list(o.env.values())
        for e in exprs:
            for n in ast.walk(e):
                ew = elementwise(n) if isinstance(n, (ast.Call, ast.ListComp, ast.GeneratorExp, ast.BinOp)) else None
                if ew is not None and isinstance(ew.elt, ast.Call) and isinstance(ew.elt.func, ast.Attribute) \
                        and ew.elt.func.attr == 'rtlir_tr_connection':
                    found.append(ew)
        if found:
            break
    if not found:
        raise AnalysisError("translate_connections: no `one rtlir_tr_connection per connection` construction found")
    ew = found[0]
    args = ew.elt.args
    # the iteration binds (writer, reader) in the order the pairs were generated
    okt = len(ew.names) in (1, 2) and not ew.conds and not ew.flat and len(args) == 2 and not ew.elt.keywords
    if okt:
        # the pair is bound either to two names or to one name indexed [0] / [1]
        wname, rname = ew.names if len(ew.names) == 2 else (f"{ew.names[0]}[0]", f"{ew.names[0]}[1]")
        okt = all(isinstance(a, ast.Call) and isinstance(a.func, ast.Attribute) and a.func.attr == 'rtlir_signal_expr_translation'
                  and a.args for a in args) and \
            norm(args[0].args[0]) == wname and norm(args[1].args[0]) == rname and \
            [norm(a.args[2]) if len(a.args) > 2 else None for a in args] == ["'writer'", "'reader'"] and \
            'reversed' not in norm(ew.it) and 'sorted' not in norm(ew.it)
    cons = f"rtlir_tr_connection({', '.join(norm(a)[:60] for a in args)})"
    if okt:
        r.ok(c.mod, fq(c, f), cons)
    else:
        r.bad(c.mod, fq(c, f), cons, "the hook must receive (translation of the writer with status 'writer', translation of the "
              "reader with status 'reader') for every (writer, reader) pair, in order", ew.elt.lineno if hasattr(ew.elt, 'lineno') else f.lineno)
    hc, hf = lk.find(top, 'rtlir_tr_connection')
    ps = [a.arg for a in hf.args.args][1:]
    ex, outs = sym_run(hf)
    for o in outs:
        if o.kind != 'return' or o.value is None:
            continue
        for v in to_variants(o.value):
            sk = v.skeleton()
            hs = [h.text for h in hole_list(v.parts)]
            cons = f"rtlir_tr_connection -> {sk} {hs}"
            if sk != 'assign ⟨0⟩=⟨1⟩;':
                r.bad(hc.mod, fq(hc, hf), cons, "a connection must be emitted as `assign <reader> = <writer>;`", o.node.lineno)
                continue
            if hs == [ps[1], ps[0]]:
                r.ok(hc.mod, fq(hc, hf), cons)
                continue
            # yosys: the two expressions are taken from the deque in the order they were translated (writer first)
            lhs, rhs = hole_list(v.parts)
            l_pops = set(re.findall(r"__eff__\((\d+)", lhs.text))
            r_pops = set(re.findall(r"__eff__\((\d+)", rhs.text))
            if l_pops == {'1'} and r_pops == {'0'} and 'popleft' in lhs.text and 'popleft' in rhs.text:
                r.ok(hc.mod, fq(hc, hf), "rtlir_tr_connection -> assign <2nd dequeued (reader)> = <1st dequeued (writer)>;")
            else:
                r.bad(hc.mod, fq(hc, hf), f"rtlir_tr_connection -> {sk} lhs from pops {sorted(l_pops)}, rhs from pops {sorted(r_pops)}",
                      "the assign target must be the reader expression (translated and queued second), the source the "
                      "writer expression (queued first)", o.node.lineno)
    r.evaluations = nev
    r.require_floor(6)
    return r


# ---------------------------------------------------------------------------
_INST_RE = re.compile(r"\{(\w+)\}[ \t]+\{(\w+)\}[ \t]*\n[ \t]*\(")


def _nested_funcs(fdef):
    return [n for n in ast.walk(fdef) if isinstance(n, ast.FunctionDef) and n is not fdef]


def _format_kw(expr, field):
    """value bound to `field` in a `.format(...)` call found inside expr (after ** expansion by SymExec.sub)"""
    for n in ast.walk(expr):
        if isinstance(n, ast.Call) and isinstance(n.func, ast.Attribute) and n.func.attr == 'format':
            for k in n.keywords:
                if k.arg == field:
                    return n, k.value
    return None, None


def _name_decision(expr, r, mod, where, lineno, site):
    """judge `explicit name if set else unique name` for a module-name expression; returns (ok, unique_call, obj_text)"""
    has = [n for n in ast.walk(expr) if isinstance(n, ast.Call) and isinstance(n.func, ast.Attribute)
           and n.func.attr == 'has_metadata' and 'explicit_module_name' in norm(n)]
    get = [n for n in ast.walk(expr) if isinstance(n, ast.Call) and isinstance(n.func, ast.Attribute)
           and n.func.attr == 'get_metadata' and 'explicit_module_name' in norm(n)]
    uniq = [n for n in ast.walk(expr) if isinstance(n, ast.Call) and isinstance(n.func, ast.Attribute)
            and n.func.attr == 'rtlir_tr_component_unique_name']
    isph = [n for n in ast.walk(expr) if isinstance(n, ast.Call) and norm(n.func) == 'isinstance' and 'Placeholder' in norm(n.args[1])]
    return has, get, uniq, isph


def rule_modname(repo, backend):
    r = RuleResult('R-tr-modname', f"[{backend}] the name a module is defined under and the name it is instantiated with are "
                                   f"chosen by the same rule (explicit_module_name if set, else the unique name of that "
                                   f"component's own parameters) -- per element of a component array")
    lk = linker(repo)
    top = backend_class(repo, backend)
    nev = 0
    # ---- definition site
    c, f = lk.find(top, 'rtlir_tr_component')
    ex, outs = sym_run(f)
    n_def = 0
    for o in outs:
        if o.kind != 'return' or o.value is None:
            continue
        call, val = _format_kw(o.value, 'module_name')
        if call is None:
            continue
        tmpl_txt = ' '.join(x.value for x in ast.walk(call.func.value) if isinstance(x, ast.Constant) and isinstance(x.value, str))
        if not re.search(r"\bmodule\s+\{module_name\}", tmpl_txt):
            continue
        n_def += 1
        mism = None
        for E, T_, M in itertools.product(('', 'X'), (False, True), ('', 'M')):
            lv = {'structural.component_explicit_module_name': E, 'structural.component_is_top': T_,
                  's._mangled_placeholder_top_module_name': M, 'structural.component_unique_name': 'U'}
            ok, got = try_ev(val, lv)
            nev += 1
            if not ok:
                raise AnalysisError(f"{fq(c, f)}: module name expression outside the abstract domain: {norm(val)[:100]}")
            want = E or (M if (T_ and M) else 'U')
            if got != want and mism is None:
                mism = (E, T_, M, got, want)
        cons = f"module {norm(val)[:200]}"
        if mism:
            E, T_, M, got, want = mism
            r.bad(c.mod, fq(c, f), cons, f"with explicit_module_name={E!r}, is_top={T_}, placeholder name={M!r} the module is "
                  f"defined as {got!r} but instantiated by its parent as {want!r} (the instantiation honours "
                  f"explicit_module_name for every component): dangling module reference / wrong module bound", o.node.lineno)
        else:
            r.ok(c.mod, fq(c, f), cons)
    if n_def == 0:
        raise AnalysisError(f"{fq(c, f)}: module definition template not found")
    # ---- instantiation site
    c, f = lk.find(top, 'rtlir_tr_subcomp_decl')
    cands = [f] + _nested_funcs(f)
    inst = None
    for g in cands:
        for n in walk_no_nested(g):
            if isinstance(n, ast.Constant) and isinstance(n.value, str):
                m_ = _INST_RE.search(n.value)
                if m_:
                    inst = (g, m_.group(1), m_.group(2))
    if inst is None:
        raise AnalysisError(f"{fq(c, f)}: instantiation template `<module> <instance> (` not found")
    g, fld_mod, fld_inst = inst
    exo, outs_o = sym_run(f)
    if g is f:
        outs_g, exg = outs_o, exo
    else:
        exg, outs_g = sym_run(g, rename=False)
    name_expr = None
    for o in outs_g:
        if o.kind != 'return' or o.value is None:
            continue
        call, val = _format_kw(o.value, fld_mod)
        if call is not None:
            name_expr = (o, val)
            break
    if name_expr is None:
        raise AnalysisError(f"{fq(c, f)}: module-name field {fld_mod} of the instantiation template is not bound")
    o_g, val = name_expr
    gparams = [a.arg for a in g.args.args]
    per_elem_params = set()
    if g is not f:
        # recursion over the array dimensions: parameters whose recursive argument involves the loop index
        for n in ast.walk(g):
            if isinstance(n, ast.Call) and isinstance(n.func, ast.Name) and n.func.id == g.name:
                loops = [p for p in [enclosing(n, (ast.For, ast.ListComp, ast.GeneratorExp))] if p is not None]
                lvars = set()
                for lp in loops:
                    if isinstance(lp, ast.For):
                        lvars |= {x.id for x in ast.walk(lp.target) if isinstance(x, ast.Name)}
                    else:
                        for gen_ in lp.generators:
                            lvars |= {x.id for x in ast.walk(gen_.target) if isinstance(x, ast.Name)}
                for p, a in zip(gparams, n.args):
                    if {x.id for x in ast.walk(a) if isinstance(x, ast.Name)} & lvars:
                        per_elem_params.add(p)
    hoisted = False
    if isinstance(val, ast.Name) and val.id in gparams and g is not f:
        # the name is a parameter of the recursive helper: take the argument given by the enclosing function
        arg = None
        for o in outs_o:
            for n in [x for cl, cs in o.calls for x in ast.walk(cl)] + ([x for x in ast.walk(o.value)] if o.value is not None else []) + \
                    [x for v_ in o.env.values() for x in ast.walk(v_)]:
                if isinstance(n, ast.Call) and isinstance(n.func, ast.Name) and n.func.id == g.name:
                    idx = gparams.index(val.id)
                    if idx < len(n.args):
                        arg = n.args[idx]
            if arg is not None:
                break
        if arg is None:
            raise AnalysisError(f"{fq(c, f)}: call of {g.name} not found")
        val = arg
        hoisted = True
    has, get, uniq, isph = _name_decision(val, r, c.mod, fq(c, f), f.lineno, 'inst')
    cons = f"instantiate {norm(val)[:220]}"
    if not uniq:
        memo = [n for n in ast.walk(val) if isinstance(n, ast.Subscript) and norm(n.value).startswith('s.')]
        if memo:
            r.bad(c.mod, fq(c, f), cons, f"the instantiated module name is looked up from `{norm(memo[0])[:80]}` instead of being "
                  f"computed from this element's own RTLIR type: elements of an array (or instances of one class) with "
                  f"different parameters are bound to the module of whichever was seen first", f.lineno)
        else:
            r.bad(c.mod, fq(c, f), cons, "the default module name of an instantiated sub-component is not "
                  "rtlir_tr_component_unique_name(<its RTLIR type>)", f.lineno)
    elif not has or not get:
        r.bad(c.mod, fq(c, f), cons, "explicit_module_name of the sub-component is not consulted at the instantiation site "
              "although the definition site uses it", f.lineno)
    else:
        mism = None
        for H, in itertools.product((False, True)):
            lv = {norm(has[0]): H, norm(get[0]): 'X', norm(uniq[0]): 'U'}
            for ph in isph:
                lv[norm(ph)] = False
            ok, got = try_ev(val, lv)
            nev += 1
            if not ok:
                raise AnalysisError(f"{fq(c, f)}: instantiated name outside the abstract domain: {norm(val)[:100]}")
            want = 'X' if H else 'U'
            if got != want and mism is None:
                mism = (H, got, want)
        if mism:
            r.bad(c.mod, fq(c, f), cons, f"explicit_module_name {'set' if mism[0] else 'unset'}: instantiates {mism[1]!r}, the "
                  f"definition is emitted as {mism[2]!r}", f.lineno)
        else:
            r.ok(c.mod, fq(c, f), f"instantiate: explicit name if set else unique name")
        # per element, on every path
        obj_txt = norm(has[0].func.value)
        recursive = bool(per_elem_params) or any(isinstance(n, ast.Call) and isinstance(n.func, ast.Name) and n.func.id == g.name
                                                 for n in ast.walk(g))

        def mentions_elem(txt):
            return any(re.search(rf"\b{re.escape(p)}\b", txt) for p in per_elem_params) and not hoisted

        def arms(e, tests=()):
            """alternatives of a conditional expression with the tests that select them"""
            if isinstance(e, ast.IfExp):
                return arms(e.body, tests + ((e.test, True),)) + arms(e.orelse, tests + ((e.test, False),))
            return [(e, tests)]

        def same_object_test(test, pol):
            # only identity of the element itself with another object justifies reusing that object's type
            return pol is True and isinstance(test, ast.Compare) and len(test.ops) == 1 and isinstance(test.ops[0], ast.Is) and \
                obj_txt in (norm(test.left), norm(test.comparators[0]))
        dep_obj = mentions_elem(obj_txt)
        bad_arm = None
        for u in uniq:
            if not u.args:
                continue
            for arm, tests in arms(u.args[0]):
                if not mentions_elem(norm(arm)) and not any(same_object_test(t, p_) for t, p_ in tests):
                    bad_arm = (arm, tests)
        cons2 = f"unique name from {norm(uniq[0].args[0])[:120] if uniq[0].args else '?'}"
        if recursive and bad_arm is not None and dep_obj and bad_arm[1]:
            arm, tests = bad_arm
            r.bad(c.mod, fq(c, f), cons2, f"on the path where `{norm(tests[-1][0])[:80]}` is {tests[-1][1]} the module name of an array "
                  f"element is derived from `{norm(arm)[:60]}` (the array's element type / element 0) instead of the element's own "
                  f"RTLIR type: that condition does not imply equal construct() parameters, so e.g. [A(1), A(4)] both instantiate "
                  f"A__k_1", f.lineno)
        elif recursive and (bad_arm is not None or not dep_obj):
            r.bad(c.mod, fq(c, f), cons2, "for an array of sub-components the module name is computed once (from element [0] / the "
                  "array's element type) and reused for every element; RTLIR arrays only require equal interfaces, so elements "
                  "constructed with different parameters are all bound to element 0's module", f.lineno)
        else:
            r.ok(c.mod, fq(c, f), cons2 + (" (per element)" if recursive else ""))
    # ---- parameters that enter the unique name: defaults aligned with the tail of the argument list
    tm = repo.mod(RTYPE)
    pf = tm.get_func('Component._gen_parameters')
    subs = [n for n in ast.walk(pf) if isinstance(n, ast.Subscript) and isinstance(n.value, ast.Name) and n.value.id == 'defaults'
            and isinstance(n.ctx, ast.Load)]
    if not subs:
        raise AnalysisError("Component._gen_parameters: use of the defaults tuple not found")
    for sb in subs:
        idx_e = sb.slice
        # resolve helper names by their reaching definitions
        mapping = {}
        for nm in {x.id for x in ast.walk(idx_e) if isinstance(x, ast.Name)}:
            rv = reaching_value(nm, sb)
            if rv is not None and nm not in ('arg_names', 'defaults'):
                mapping[nm] = rv
        e2 = subst(idx_e, mapping)
        loop = enclosing(sb, (ast.For,))
        ivar = None
        if loop is not None and isinstance(loop.target, ast.Tuple) and norm(loop.iter).startswith('enumerate('):
            ivar = norm(loop.target.elts[0])
        elif loop is not None and isinstance(loop.target, ast.Name):
            ivar = loop.target.id
        if ivar is None:
            raise AnalysisError("Component._gen_parameters: loop index not recognised")
        mism = None
        for N in range(1, 5):
            for D in range(0, N + 1):
                for A in range(0, N + 1):
                    for i in range(max(A, N - D), N):
                        lv = {'arg_names': [0] * N, 'defaults': tuple(range(D)), ivar: i,
                              'obj._dsl.args': [0] * A, 'obj._dsl.kwargs': {}, 'argspec.defaults': tuple(range(D)) or None}
                        ok, j = try_ev(e2, lv)
                        nev += 1
                        if not ok:
                            raise AnalysisError(f"Component._gen_parameters: index outside the abstract domain: {norm(e2)}")
                        want = i - (N - D)
                        jj = j if j >= 0 else D + j
                        if (jj != want or not (-D <= j < D)) and mism is None:
                            mism = (N, D, i, j, want)
        cons = f"defaults[{norm(idx_e)}]"
        if mism:
            N, D, i, j, want = mism
            r.bad(tm, 'Component._gen_parameters', cons, f"construct() with {N} parameters, {D} defaults: parameter #{i} takes "
                  f"defaults[{j}] instead of defaults[{want}] -- the module name carries another parameter's default value, so "
                  f"differently parameterised components alias / identical ones get different modules", sb.lineno)
        else:
            r.ok(tm, 'Component._gen_parameters', cons)
    r.evaluations = nev
    r.require_floor(3)
    return r


# ---------------------------------------------------------------------------
_FOR_RE = re.compile(r"for\((?:int unsigned |integer |int )?(?P<v>[^;=]+)=⟨(?P<s>\d+)⟩;(?P=v)(?P<c><=|>=|<|>|!=)⟨(?P<e>\d+)⟩"
                     r"(?:&&(?P=v)<=⟨(?P<g>\d+)⟩)?;"
                     r"(?P=v)(?:(?P<i1>[+-])=|=(?P=v)(?P<i2>[+-]))⟨(?P<st>\d+)⟩\)(.*)")


def rule_for(repo, backend):
    r = RuleResult('R-tr-for', f"[{backend}] a range() loop is emitted with the bounds in place and with comparison and "
                               f"increment direction following the sign of the step (`<`/`+` ascending, `>`/`-` descending)")
    lk = linker(repo)
    vis = tov_visitor(repo, backend)
    nev = 0
    c, f = lk.find(vis, 'visit_For')
    ex, outs = sym_run(f)
    headers = []
    for o in outs:
        if o.kind != 'return' or o.value is None:
            continue
        seen_t = set()
        for n in ast.walk(o.value):
            if isinstance(n, (ast.Call, ast.JoinedStr)) and norm(n) not in seen_t:
                if isinstance(n, ast.Call) and not (isinstance(n.func, ast.Attribute) and n.func.attr == 'format'):
                    continue
                seen_t.add(norm(n))
                for v in to_variants(n, o.conds):
                    if v.skeleton().startswith('for('):
                        headers.append((o, v))
    if not headers:
        raise AnalysisError(f"{fq(c, f)}: loop header template not found")
    reported = set()
    good = set()
    for st in (1, 2, -1, -3):
        lv = {'node.step._value': st, 'node.step.value': st, 'len(node.body)': 2}
        live = [(o, v) for o, v in headers if possible(v.conds, lv)]
        if not live:
            r.bad(c.mod, fq(c, f), f"visit_For step={st}", "no loop header is emitted for this step", f.lineno)
        for o, v in live:
            nev += 1
            sk = v.skeleton()
            hl = hole_list(v.parts)
            m = _FOR_RE.fullmatch(sk)
            key = (sk, st > 0)
            if not m:
                if sk not in reported:
                    reported.add(sk)
                    r.bad(c.mod, fq(c, f), f"visit_For -> {sk}", "loop header is not of the form for (i = start; i <cmp> end; i = i +/- step)",
                          o.node.lineno)
                continue
            start, end = hl[int(m.group('s'))].text, hl[int(m.group('e'))].text
            comp, inc = m.group('c'), m.group('i1') or m.group('i2')
            want_c, want_i = ('<', '+') if st > 0 else ('>', '-')
            probs = []
            if start != 's.visit(node.start)' or end != 's.visit(node.end)':
                probs.append(f"bounds are ({start}, {end}), expected (start, end)")
            if comp != want_c:
                probs.append(f"continuation test uses `{comp}` for a {'positive' if st > 0 else 'negative'} step (range({'0, 4' if st > 0 else '3, 0'}, "
                             f"{st}) must run while i {want_c} end)")
            if inc != want_i:
                probs.append(f"the index is {'incremented' if inc == '+' else 'decremented'} for a {'positive' if st > 0 else 'negative'} step")
            cons = f"visit_For step{'>0' if st > 0 else '<0'} -> {sk}"
            if probs:
                if key not in reported:
                    reported.add(key)
                    r.bad(c.mod, fq(c, f), cons, '; '.join(probs) + ": the emitted loop runs a different number of iterations "
                          "than the Python loop (never, for a descending range)", o.node.lineno)
            elif key not in good:
                good.add(key)
                r.ok(c.mod, fq(c, f), cons)
    # termination of a count-down that does not land on its end value: the counter is unsigned (`int unsigned`, or an integer
    # compared with an unsigned sized literal), so after the last value it wraps to 2**32 - k, which still is `> end`; the header is
    # executed on 32-bit unsigned arithmetic and must visit exactly the values of the Python range
    for o, v in headers:
        m = _FOR_RE.fullmatch(v.skeleton())
        if not m or not possible(v.conds, {'node.step._value': -3, 'node.step.value': -3, 'len(node.body)': 2}):
            continue
        comp, inc = m.group('c'), m.group('i1') or m.group('i2')
        guard = m.group('g') is not None and m.group('g') == m.group('s')
        wrong = None
        for a_, b_, st_ in ((13, 0, -3), (6, 0, -3), (7, 2, -2), (5, 0, -1)):
            nev += 1
            cur, seen_vals = a_, []
            for _ in range(12):
                ok_c = {'>': cur > b_, '>=': cur >= b_, '<': cur < b_, '<=': cur <= b_, '!=': cur != b_}[comp]
                if not ok_c or (guard and not cur <= a_):
                    break
                seen_vals.append(cur)
                cur = (cur - abs(st_) if inc == '-' else cur + abs(st_)) % (1 << 32)
            if seen_vals != list(range(a_, b_, st_)) and wrong is None:
                wrong = (a_, b_, st_, seen_vals)
        cons = "visit_For: a count-down header visits the values of the range and stops"
        if cons in reported:
            continue
        reported.add(cons)
        if wrong:
            a_, b_, st_, seen_vals = wrong
            r.bad(c.mod, fq(c, f), cons, f"range({a_}, {b_}, {st_}) visits {list(range(a_, b_, st_))}; the emitted header, run on the unsigned "
                  f"counter it declares, visits {seen_vals[:7]}...: after the last value the counter wraps around instead of going "
                  f"negative, `i > end` stays true and the loop does not terminate (elaboration of the emitted Verilog fails / hangs)",
                  o.node.lineno)
        else:
            r.ok(c.mod, fq(c, f), cons)
    # the amount added / subtracted per iteration is |step|, however the negative step is represented: as -(literal), whose
    # translation starts with '-', or as a node that carries the negative constant itself (a folded literal, a constant
    # attribute s.K = -3, a free variable), whose translation is the two's complement at the constant's own width
    def own_width(val):
        return 1 if -1 <= val <= 1 else ((abs(val) - 1).bit_length() + 1 if val < 0 else val.bit_length())
    mag_bad, mag_n = {}, 0
    for st in (-1, -2, -3, -5, 2, 3):
        nmag = abs(st)
        reps = [('a literal', f"{nmag.bit_length()}'d{nmag}")] if st > 0 else \
               [('-(literal)', f"-{nmag.bit_length()}'d{nmag}"),
                ('a negative constant (s.K / folded literal)', f"{own_width(st)}'d{st % (1 << own_width(st))}")]
        for what, text in reps:
            lv = {'s.visit(node.step)': text, 'node.step._value': st, 'node.step.value': st}
            for o, v in headers:
                m = _FOR_RE.fullmatch(v.skeleton())
                if not m:
                    continue
                it = _Interp(lv, {})
                live = True
                for t_, pol in v.conds:
                    if isinstance(t_, str):
                        continue
                    try:
                        if bool(it.ev(t_)) != pol:
                            live = False
                            break
                    except (AnalysisError, Raised, TypeError, KeyError, IndexError):
                        pass
                if not live:
                    continue
                h = hole_list(v.parts)[int(m.group('st'))]
                mag_n += 1
                nev += 1
                try:
                    emitted = str(it.ev(h.expr)).strip()
                except (AnalysisError, Raised, TypeError, KeyError, IndexError) as e:
                    raise AnalysisError(f"{fq(c, f)}: the step of the loop header is outside the abstract domain: {h.text[:80]}")
                mm = re.fullmatch(r"(\d+)'d(\d+)|(\d+)", emitted)
                got = None if not mm else int(mm.group(2) if mm.group(2) is not None else mm.group(3))
                if got != nmag:
                    mag_bad.setdefault(what, []).append((st, text, emitted, o))
    if mag_n == 0 and any(_FOR_RE.fullmatch(v.skeleton()) for o, v in headers):
        raise AnalysisError(f"{fq(c, f)}: the step of the loop header was not evaluated")
    for what in (('a literal', '-(literal)', 'a negative constant (s.K / folded literal)') if mag_n else ()):
        cons = f"visit_For: amount per iteration for a step given as {what}"
        if what in mag_bad:
            st, text, emitted, o = mag_bad[what][0]
            r.bad(c.mod, fq(c, f), cons, f"for step {st}, translated as `{text}`, the loop variable changes by `{emitted}` per iteration "
                  f"instead of {abs(st)} ({len(mag_bad[what])} steps wrong): range(7, 0, s.K) with s.K = -3 is emitted as `j -= 3'd5`, "
                  f"the unsigned counter wraps and the loop runs with other index values than the simulation (7, 4, 1)", o.node.lineno)
        else:
            r.ok(c.mod, fq(c, f), cons)
    r.evaluations = nev
    r.require_floor(2 + 3 + 1)
    return r


# ---------------------------------------------------------------------------
def _loop_parts(e):
    if _is_loopcall(e) and len(e.args) == 4:
        return e.args
    return None


def rule_sigexpr(repo, backend):
    r = RuleResult('R-tr-sigexpr', f"[{backend}] a connected signal is rebuilt from the component outwards: attribute, then its "
                                   f"array indices in source order, ..., slice last (s.a[1][2].b[0:4] stays s.a[1][2].b[0:4])")
    m = repo.mod(SEXP)
    fn = m.functions.get('gen_signal_expr')
    if fn is None:
        raise AnalysisError("anchor vanished: gen_signal_expr")
    ex, outs = sym_run(fn, rename=False)
    rets = [o for o in outs if o.kind == 'return' and o.value is not None and _is_loopcall(o.value)]
    if len(rets) != 1:
        raise AnalysisError("gen_signal_expr: token application loop not found")
    o = rets[0]
    it, tgt, init, step = o.value.args
    def _rev(e):
        if isinstance(e, ast.Call) and norm(e.func) == 'reversed' and len(e.args) == 1:
            return e.args[0]
        if isinstance(e, ast.Subscript) and norm(e.slice) == '::-1':
            return e.value
        return None
    cons_rev = _rev(it) is not None
    stack = _rev(it) if cons_rev else it
    lp = _loop_parts(stack)
    if lp is None:
        raise AnalysisError("gen_signal_expr: token stack is not built by the parent walk")
    w_test, _, s_init, s_body = lp
    # application step: cur_node = f(cur_node, token)
    tnames = [x.strip() for x in tgt.value.strip('()').split(',')]
    ok_apply = len(tnames) == 2 and norm(step) == f"{tnames[0]}(__carried__('cur_node'), {tnames[1]})"
    if ok_apply and norm(init).startswith('construct_base('):
        r.ok(m, 'gen_signal_expr', f"cur_node = construct_base(...); for {tgt.value} in ...: cur_node = f(cur_node, token)")
    else:
        r.bad(m, 'gen_signal_expr', f"{norm(init)[:60]} ; {norm(step)[:60]}", "tokens are not applied one after the other starting "
              "from the component", fn.lineno)
    # body of the walk: index pushes then the attribute push
    segs = flatten_add(s_body)
    idx_seg = [s_ for s_ in segs if 'construct_index' in norm(s_)]
    attr_seg = [s_ for s_ in segs if 'construct_attr' in norm(s_) and 'construct_index' not in norm(s_)]
    if len(idx_seg) != 1 or len(attr_seg) != 1:
        raise AnalysisError("gen_signal_expr: index / attribute pushes not recognised")
    attr_after = segs.index(attr_seg[0]) > segs.index(idx_seg[0])
    iloops = [n for n in ast.walk(idx_seg[0]) if _is_loopcall(n)]
    if len(iloops) != 1:
        raise AnalysisError("gen_signal_expr: index push loop not recognised")
    i_it, i_tgt, i_init, i_step = iloops[0].args
    idx_rev = _rev(i_it) is not None
    idx_append = norm(i_step).startswith("__carried__('stack') + ")
    slice_first = 'construct_slice' in norm(s_init) and 'construct_slice' not in norm(s_body)
    cons = (f"stack: slice{' first' if slice_first else ' NOT first'}; per object: indices "
            f"{'reversed' if idx_rev else 'in order'} then attr{'' if attr_after else ' (attr BEFORE indices)'}; applied "
            f"{'reversed' if cons_rev else 'in push order'}")
    # order in which one object's tokens are applied (closest to the component first), for two indices i1, i2
    pushes = ['i2', 'i1'] if idx_rev else ['i1', 'i2']
    if not idx_append:
        pushes = pushes[::-1]
    seq = pushes + ['attr'] if attr_after else ['attr'] + pushes
    applied = seq[::-1] if cons_rev else seq
    good = applied == ['attr', 'i1', 'i2'] and slice_first == cons_rev
    if good:
        r.ok(m, 'gen_signal_expr', cons, note="applied per object: attr, i1, i2; slice last")
    else:
        r.bad(m, 'gen_signal_expr', cons, f"per object the tokens are applied as {applied}"
              f"{'' if slice_first == cons_rev else ' and the slice is not applied last'}: a connection to s.x[1][2] is emitted "
              f"for s.x[2][1] (or the attribute is taken of an index)", fn.lineno)
    r.require_floor(2)
    return r


# ---------------------------------------------------------------------------
def rule_constcache(repo, backend):
    r = RuleResult('R-tr-constcache', f"[{backend}] constants resolved for an update block are memoised per (block, closure) only: "
                                      f"the memo keyed by AST node lives in the extractor instance created when the block is entered")
    lk = linker(repo)
    gm = repo.mod(GEN[1])
    if 'ConstantExtractor' not in gm.classes:
        raise AnalysisError("anchor vanished: ConstantExtractor")
    meths = gm.methods('ConstantExtractor')
    init = meths.get('__init__')
    if init is None:
        raise AnalysisError("anchor vanished: ConstantExtractor.__init__")
    me0 = init.args.args[0].arg
    fresh = set()
    for n in walk_no_nested(init):
        if isinstance(n, ast.Assign) and len(n.targets) == 1 and isinstance(n.targets[0], ast.Attribute) \
                and isinstance(n.targets[0].value, ast.Name) and n.targets[0].value.id == me0:
            v = n.value
            if (isinstance(v, ast.Dict) and not v.keys) or (isinstance(v, ast.Call) and norm(v.func) in ('dict', 'OrderedDict') and not v.args):
                fresh.add(n.targets[0].attr)
    n_memo = 0
    for name, f in sorted(meths.items()):
        if len(f.args.args) < 2:
            continue
        me, nd = f.args.args[0].arg, f.args.args[1].arg
        conts = {}
        for n in walk_no_nested(f):
            if isinstance(n, ast.Subscript) and norm(n.slice) == nd:
                conts.setdefault(norm(n.value), n)
            if isinstance(n, ast.Compare) and len(n.ops) == 1 and isinstance(n.ops[0], (ast.In, ast.NotIn)) and norm(n.left) == nd:
                conts.setdefault(norm(n.comparators[0]), n)
        for ctext, n in sorted(conts.items()):
            n_memo += 1
            cons = f"{name}: memo {ctext}[{nd}]"
            mm = re.fullmatch(rf"{re.escape(me)}\.(\w+)", ctext)
            if mm and mm.group(1) in fresh:
                r.ok(gm, f"ConstantExtractor.{name}", cons)
            else:
                r.bad(gm, f"ConstantExtractor.{name}", cons, f"results are memoised by AST node in `{ctext}`, which is not a "
                      f"dictionary created in ConstantExtractor.__init__: the AST of an update block is shared by all instances "
                      f"of a component class, so a constant resolved for one instance (closure / parameters) is reused for the "
                      f"next one and the wrong literal is emitted", n.lineno)
    # the extractor is created when a block is entered (with that block's globals / closure)
    gen = generator_class(repo, backend)
    res = lk.find(gen, 'enter')
    if res is None:
        raise AnalysisError("anchor vanished: generator enter")
    c, f = res
    mk = [n for n in walk_no_nested(f) if isinstance(n, ast.Call) and isinstance(n.func, ast.Name) and n.func.id == 'ConstantExtractor']
    elsewhere = []
    for cc in lk.mro(gen):
        for mname, ff in cc.methods().items():
            if ff is f:
                continue
            elsewhere += [(cc, ff, n) for n in ast.walk(ff) if isinstance(n, ast.Call) and isinstance(n.func, ast.Name)
                          and n.func.id == 'ConstantExtractor']
    cond_guards = [g_ for g_ in guards_of(mk[0]) if g_.kind in ('if', 'loop')] if mk else []
    if mk and not elsewhere and not cond_guards and len(mk[0].args) == 3 and norm(mk[0].args[2]).endswith('.closure'):
        r.ok(c.mod, fq(c, f), f"{norm(mk[0])} created per block entry")
    else:
        w = elsewhere[0] if elsewhere else None
        r.bad(c.mod, fq(c, f) if w is None else fq(w[0], w[1]), 'ConstantExtractor(...)', "the constant extractor (and its memo) "
              "must be created anew for every update block that is entered, from that block's globals and closure", f.lineno)
    if n_memo == 0:
        r.ok(gm, 'ConstantExtractor', 'no memo keyed by AST node', nontrivial=False)
    r.require_floor(2)
    return r


# ---------------------------------------------------------------------------
def _descending_range(it, n_text):
    """iteration visits n-1 .. 0 ?"""
    t = norm(it)
    return t in (f"reversed(range({n_text}))", f"range({n_text} - 1, -1, -1)", f"reversed(list(range({n_text})))")


def _ascending_range(it, n_text):
    return norm(it) in (f"range({n_text})", f"range(0, {n_text})", f"range(0, {n_text}, 1)")


def _check_struct_instance(r, cls, fdef, what):
    """struct literal emitter: fields in declaration order (first field most significant), packed arrays with
    element n-1 first (element 0 least significant), joined by ', ' inside a concatenation"""
    mod = cls.mod
    ex, outs = sym_run(fdef)
    params = [a.arg for a in fdef.args.args]
    dt = params[1] if len(params) > 1 else None
    n_ok = 0
    found = False
    for o in outs:
        if o.kind != 'return' or o.value is None:
            continue
        for v in to_variants(o.value, o.conds):
            joins = [h for h in hole_list(v.parts) if h.kind == 'join' and elementwise(h.expr) is not None]
            if not joins:
                continue
            found = True
            ew = elementwise(joins[0].expr)
            it = ew.it
            step = _mk_name('__carried__()') if not ew.conds and not ew.flat else _mk_name('filtered')
            sk = v.skeleton()
            cons = f"{what}: {sk} fields {norm(it)[:60]}"
            probs = []
            if norm(it) != f"{dt}.get_all_properties().items()":
                probs.append(f"fields are visited as `{norm(it)}`, not in declaration order ({dt}.get_all_properties().items())")
            if joins[0].spec.strip() != ',':
                probs.append("fields are not joined by ','")
            if not norm(step).startswith("__carried__("):
                probs.append("per-field text is not appended at the end of the list")
            if not re.fullmatch(r"\{+⟨0⟩\}+", sk):
                probs.append(f"struct literal is emitted as `{sk}`, not as a concatenation {{ f1, f2, ... }}")
            if probs:
                r.bad(mod, fq(cls, fdef), cons, '; '.join(probs) + " -- the first declared field must be the most significant part "
                      "of the packed value (bitstruct to_bits order)", o.node.lineno)
            else:
                r.ok(mod, fq(cls, fdef), cons)
                n_ok += 1
    if not found:
        raise AnalysisError(f"{fq(cls, fdef)}: field loop of the struct literal not found")
    # packed array helper
    class _It:
        def __init__(self, target, it, lineno, body, n_app):
            self.target, self.iter, self.lineno, self.body, self.n_app = target, it, lineno, body, n_app
    inner = [n for n in _nested_funcs(fdef)]
    for g in inner:
        fors = []
        for x in walk_no_nested(g):
            if isinstance(x, ast.For):
                apps_ = [y for y in ast.walk(x) if isinstance(y, ast.Call) and isinstance(y.func, ast.Attribute) and y.func.attr == 'append']
                fors.append(_It(x.target, x.iter, x.lineno, x, len(apps_)))
            elif isinstance(x, (ast.ListComp, ast.GeneratorExp)) and len(x.generators) == 1 and 'range(' in norm(x.generators[0].iter):
                fors.append(_It(x.generators[0].target, x.generators[0].iter, x.lineno, x.elt, 1))
        for lp in fors:
            ndim = None
            mm = re.search(r"range\((\w+)\[0\]", norm(lp.iter))
            if mm:
                ndim = mm.group(1) + '[0]'
            cons = f"{what}.{g.name}: for {norm(lp.target)} in {norm(lp.iter)}"
            if ndim is None:
                raise AnalysisError(f"{fq(cls, fdef)}.{g.name}: packed-array loop not recognised: {norm(lp.iter)}")
            apps = [None] * lp.n_app
            uses_i = any(f"[{norm(lp.target)}]" in norm(x) for x in ast.walk(lp.body) if isinstance(x, ast.Subscript))
            if not _descending_range(lp.iter, ndim):
                r.bad(mod, fq(cls, fdef), cons, "elements of a packed array must be concatenated from index n-1 down to 0 "
                      "(element 0 is the least significant part of the packed value)", lp.lineno)
            elif len(apps) != 1 or not uses_i:
                r.bad(mod, fq(cls, fdef), cons, "each element must be appended exactly once, selected by the loop index", lp.lineno)
            else:
                r.ok(mod, fq(cls, fdef), cons)
                n_ok += 1
    return n_ok


def _visits_in_order(e, seq_text):
    """e == [ s.visit(x) for x in <seq_text> ] in any spelling (comprehension, map, append loop)"""
    ew = elementwise(e)
    return ew is not None and not ew.conds and not ew.flat and len(ew.names) == 1 and norm(ew.it) == seq_text and \
        norm(ew.elt) == f"s.visit({ew.names[0]})"


def rule_layout(repo, backend):
    r = RuleResult('R-layout-agree', f"[{backend}] struct literals and struct construction keep the packed layout of bitstructs: "
                                     f"first field most significant, packed-array element 0 least significant")
    lk = linker(repo)
    top = backend_class(repo, backend)
    n = 0
    res = lk.find(top, 'rtlir_tr_struct_instance')
    if res is None:
        raise AnalysisError("anchor vanished: rtlir_tr_struct_instance")
    n += _check_struct_instance(r, res[0], res[1], 'rtlir_tr_struct_instance')
    vis = tov_visitor(repo, backend)
    res = lk.find(vis, '_struct_instance')
    if res is not None:
        n += _check_struct_instance(r, res[0], res[1], '_struct_instance')
    # behavioural struct construction  S(a, b)  ->  { a, b }
    for c, f, o in emissions(lk, vis, 'visit_StructInst'):
        if o.kind != 'return' or o.value is None:
            continue
        for v in to_variants(o.value, o.conds):
            hl = hole_list(v.parts)
            sk = v.skeleton()
            cons = f"visit_StructInst -> {sk} {[h.text[:50] for h in hl]}"
            if sk == '{⟨0⟩}' and hl[0].kind == 'join' and hl[0].spec.strip() == ',' and _visits_in_order(hl[0].expr, 'node.values'):
                r.ok(c.mod, fq(c, f), cons)
                n += 1
            elif sk == '⟨0⟩' and hl[0].kind == 'expr' and isinstance(hl[0].expr, ast.Subscript) and norm(hl[0].expr.slice) == '0' \
                    and _visits_in_order(hl[0].expr.value, 'node.values'):
                r.ok(c.mod, fq(c, f), cons, nontrivial=False)
            else:
                r.bad(c.mod, fq(c, f), cons, "a struct built from field values must be emitted as { v1, v2, ... } in field order "
                      "(first field most significant)", o.node.lineno)
    # concat( a, b ) -> { a, b }
    for c, f, o in emissions(lk, vis, 'visit_Concat'):
        if o.kind != 'return' or o.value is None:
            continue
        for v in to_variants(o.value, o.conds):
            hl = hole_list(v.parts)
            sk = v.skeleton()
            cons = f"visit_Concat -> {sk} {[h.text[:50] for h in hl]}"
            if sk == '{⟨0⟩}' and hl[0].kind == 'join' and hl[0].spec.strip() == ',' and _visits_in_order(hl[0].expr, 'node.values'):
                r.ok(c.mod, fq(c, f), cons)
                n += 1
            else:
                r.bad(c.mod, fq(c, f), cons, "concat(a, b, ...) must be emitted as { a, b, ... } with the first argument most "
                      "significant", o.node.lineno)
    r.evaluations = n
    r.require_floor(4)
    return r


# ===========================================================================
# H. C12 only: flattening of struct / array ports
# ===========================================================================
def _find_call(e, pred):
    return [n for n in ast.walk(e) if isinstance(n, ast.Call) and pred(n)]


def _callee_name(call):
    f = call.func
    if isinstance(f, ast.Attribute):
        return f.attr
    if isinstance(f, ast.Name):
        return f.id
    return None


def rule_flatten(repo):
    r = RuleResult('R-C12-flatten', "a flattened struct port carries [c-1 : c-w] of the packed value with a running MSB counter c that "
                                    "starts at the struct width, decreases by each field's width in field order and ends at 0; "
                                    "packed arrays put element n-1 first (element 0 least significant)")
    lk = linker(repo)
    top = backend_class(repo, 'yosys')
    nev = 0
    PROPS = '.get_all_properties().items()'

    def get(name, nested=None):
        res = lk.find(top, name)
        if res is None:
            raise AnalysisError(f"anchor vanished: {name}")
        c, f = res
        g = f
        if nested:
            cand = [n for n in _nested_funcs(f) if n.name == nested] or [n for n in _nested_funcs(f)]
            if not cand:
                raise AnalysisError(f"anchor vanished: {name}.{nested}")
            g = cand[0]
        return c, f, g

    # ---- leaf: [c-1 : c-w]
    c, f, g = get('vec_conn_vector_gen')
    ps = [a.arg for a in f.args.args][1:]
    ex, outs = sym_run(f)
    seen = False
    for o in outs:
        if o.kind != 'return' or o.value is None:
            continue
        dicts = [n for n in ast.walk(o.value) if isinstance(n, ast.Dict)]
        for d in dicts:
            kv = {k.value: v for k, v in zip(d.keys, d.values) if isinstance(k, ast.Constant)}
            if 'idx' not in kv:
                continue
            seen = True
            for v in to_variants(kv['idx']):
                hl = hole_list(v.parts)
                sk = v.skeleton()
                cons = f"vec_conn_vector_gen idx -> {sk} {[h.text for h in hl]}"
                okl = sk == '⟨0⟩[⟨1⟩:⟨2⟩]' and hl[0].text == 'idx'
                if okl:
                    for K, w in ((8, 8), (8, 3), (5, 1)):
                        nev += 1
                        lv = {'c_nbits': K, 'dtype.get_length()': w}
                        lv[ps[1]] = K
                        okl = okl and _hole_eq(hl[1], lv, K - 1) and _hole_eq(hl[2], lv, K - w)
                pid_ok = norm(kv.get('pid')) == 'pid' and norm(kv.get('wid')) == 'wid' and norm(kv.get('direction')) == 'd'
                if okl and pid_ok:
                    r.ok(c.mod, fq(c, f), cons)
                else:
                    r.bad(c.mod, fq(c, f), cons, "the slice of the packed wire connected to a flat leaf port must be "
                          "[c_nbits-1 : c_nbits-width] (running MSB counter), with the port / wire ids passed through", o.node.lineno)
    if not seen:
        raise AnalysisError("vec_conn_vector_gen: connection record not found")

    # ---- struct traversal
    def check_struct_loop(c, f, loopval, counter_name, cons_prefix, init_want=None):
        nonlocal nev
        lp = _loop_parts(loopval)
        if lp is None:
            r.bad(c.mod, fq(c, f), cons_prefix, "field loop not found", f.lineno)
            return
        it, tgt, init, step = lp
        tn = [x.strip() for x in tgt.value.strip('()').split(',')]
        calls = _find_call(step, lambda n: _callee_name(n) == 'vec_conn_dtype_gen')
        cons = f"{cons_prefix}: for {tgt.value} in {norm(it)[:50]}: {norm(calls[0])[:110] if calls else norm(step)[:80]}"
        probs = []
        if not norm(it).endswith(PROPS) or 'reversed' in norm(it) or 'sorted' in norm(it):
            probs.append(f"fields are visited as `{norm(it)}`, not in declaration order")
        if len(calls) != 1:
            probs.append("exactly one recursive vec_conn_dtype_gen call per field expected")
        else:
            a = [norm(x) for x in calls[0].args]
            if a[1] != f"__carried__('{counter_name}')":
                probs.append(f"the field is connected with counter `{a[1]}`; it must get the counter value *before* its own width "
                             f"is subtracted")
            if len(tn) == 2 and a[-1] != tn[1]:
                probs.append(f"the recursive call gets `{a[-1]}`, not the field's type `{tn[1]}`")
            if len(tn) == 2 and not re.fullmatch(rf"pid \+ '__' \+ {tn[0]}|f'\{{pid\}}__\{{{tn[0]}\}}'", a[2]):
                probs.append(f"flat port id is `{a[2]}`, expected pid__<field name>")
            if not norm(step).startswith(f"__carried__('ret') + "):
                probs.append("connections are not appended in field order")
        if probs:
            r.bad(c.mod, fq(c, f), cons, '; '.join(probs), f.lineno)
        else:
            r.ok(c.mod, fq(c, f), cons)

    def check_counter(c, f, cval, counter_name, cons_prefix, want_init, final_zero_conds=None):
        lp = _loop_parts(cval)
        cons = f"{cons_prefix}: {counter_name} = {norm(cval)[:150]}"
        if lp is None:
            r.bad(c.mod, fq(c, f), cons, f"the MSB counter {counter_name} is not decremented in the field loop: every field is "
                  f"connected to the same top bits of the packed value", f.lineno)
            return
        it, tgt, init, step = lp
        tn = [x.strip() for x in tgt.value.strip('()').split(',')]
        probs = []
        fld = tn[1] if len(tn) == 2 else tn[0]
        if norm(step) != f"__carried__('{counter_name}') - {fld}.get_length()":
            probs.append(f"counter step is `{norm(step)}`, expected {counter_name} - {fld}.get_length() (the width of the field just "
                         f"connected)")
        if want_init is not None and norm(init) != want_init:
            probs.append(f"counter starts at `{norm(init)}`, expected {want_init}")
        if final_zero_conds is not None:
            if not any(p is True and norm(t) == f"{norm(cval)} == 0" for t, p in final_zero_conds):
                probs.append("the counter is not asserted to end at 0 (field widths must add up to the struct width)")
        if probs:
            r.bad(c.mod, fq(c, f), cons, '; '.join(probs), f.lineno)
        else:
            r.ok(c.mod, fq(c, f), cons)

    c, f, g = get('vec_conn_struct_gen')
    ex, outs = sym_run(f)
    rets = [o for o in outs if o.kind == 'return' and o.value is not None]
    if len(rets) != 1:
        raise AnalysisError("vec_conn_struct_gen: single return expected")
    cn = f.args.args[2].arg
    check_struct_loop(c, f, rets[0].value, cn, 'vec_conn_struct_gen')
    check_counter(c, f, rets[0].env.get(cn, _mk_name(cn)), cn, 'vec_conn_struct_gen', cn)

    c, f, g = get('struct_conn_gen')
    ex, outs = sym_run(f)
    rets = [o for o in outs if o.kind == 'return' and o.value is not None]
    if len(rets) != 1:
        raise AnalysisError("struct_conn_gen: single return expected")
    o = rets[0]
    # the returned list: per-field connections first, then the slices of the packed wire
    lp = _loop_parts(o.value)
    counters = [k for k, v in o.env.items() if _is_loopcall(v) and re.search(r"__carried__\('(\w+)'\) - ", norm(v.args[3]))
                and k not in ('ret',)]
    if lp is None or len(counters) != 1:
        # no decrementing counter at all
        r.bad(c.mod, fq(c, f), 'struct_conn_gen counter', "no running MSB counter is decremented while the fields are connected to "
              "slices of the packed wire", f.lineno)
    else:
        cn = counters[0]
        check_struct_loop(c, f, o.value, cn, 'struct_conn_gen')
        check_counter(c, f, o.env[cn], cn, 'struct_conn_gen', 'dtype.get_length()', o.conds)
        # first pass: field-wise wires keep the same mangling on both sides
        inner = lp[2]
        ilp = _loop_parts(inner)
        if ilp is not None:
            calls = _find_call(ilp[3], lambda n: _callee_name(n) == 'dtype_conn_gen')
            tn = [x.strip() for x in ilp[1].value.strip('()').split(',')]
            if len(calls) == 1 and len(tn) == 2:
                a = [norm(x) for x in calls[0].args]
                cons = f"struct_conn_gen: {norm(calls[0])[:120]}"
                if a[1] == f"pid + '__' + {tn[0]}" and a[2] == f"wid + '__' + {tn[0]}" and a[-1] == tn[1] and norm(ilp[0]).endswith(PROPS):
                    r.ok(c.mod, fq(c, f), cons)
                else:
                    r.bad(c.mod, fq(c, f), cons, "the field-wise port and wire of a struct field must be mangled alike "
                          "(pid__<field>, wid__<field>) and recurse on the field's type", f.lineno)

    # ---- packed arrays
    c, f, g = get('vec_conn_packed_gen', '_packed_gen')
    ex, outs = sym_run(g, rename=False)
    gps = [a.arg for a in g.args.args]
    rec = [o for o in outs if o.kind == 'return' and o.value is not None and _is_loopcall(o.value)]
    leaf = [o for o in outs if o.kind == 'return' and o.value is not None and not _is_loopcall(o.value)]
    if len(rec) != 1 or len(leaf) != 1:
        raise AnalysisError("vec_conn_packed_gen._packed_gen: leaf / recursive paths not recognised")
    o = rec[0]
    it, tgt, init, step = o.value.args
    iv = tgt.value
    cn = gps[1]
    pn = gps[6] if len(gps) > 6 else None
    nd = gps[5] if len(gps) > 5 else None
    calls = _find_call(step, lambda n: _callee_name(n) == g.name)
    cons = f"_packed_gen: for {iv} in {norm(it)}: {norm(calls[0])[:120] if calls else norm(step)[:80]}"
    probs = []
    if not _descending_range(it, f"{nd}[0]"):
        probs.append(f"elements are visited as `{norm(it)}`; element n-1 must take the most significant slice (descending index)")
    if len(calls) != 1:
        probs.append("one recursive call per element expected")
    else:
        a = [norm(x) for x in calls[0].args]
        if a[1] != f"__carried__('{cn}')":
            probs.append(f"element connected with counter `{a[1]}` instead of the counter before its own decrement")
        if not re.fullmatch(rf"pid \+ '__' \+ str\({iv}\)|f'\{{pid\}}__\{{{iv}\}}'", a[2]):
            probs.append(f"flat port id is `{a[2]}`, expected pid__<index>")
        if a[5] != f"{nd}[1:]":
            probs.append(f"recursion must continue with the remaining dimensions {nd}[1:], got `{a[5]}`")
    cval = o.env.get(cn)
    clp = _loop_parts(cval) if cval is not None else None
    if clp is None:
        probs.append("the MSB counter is not decremented per element")
    else:
        stepc = clp[3]
        mm = isinstance(stepc, ast.BinOp) and isinstance(stepc.op, ast.Sub) and norm(stepc.left) == f"__carried__('{cn}')"
        if not mm:
            probs.append(f"counter step `{norm(stepc)}` is not a decrement")
        else:
            for P, dims, E in ((24, [2, 3], 4), (12, [3], 4), (16, [2, 2, 2], 2)):
                nev += 1
                lv = {pn: P, nd: dims, 'dtype.get_length()': E, f"{nd}[0]": dims[0]}
                okd, dval = try_ev(stepc.right, lv)
                if not okd:
                    raise AnalysisError(f"_packed_gen: decrement outside the abstract domain: {norm(stepc.right)}")
                if dval != P // dims[0]:
                    probs.append(f"for a packed array of total width {P} with dimensions {dims} (element width {E}) the counter "
                                 f"advances by {dval} per element of the outermost dimension, expected {P // dims[0]}")
                    break
                if len(calls) == 1:
                    okp, pval = try_ev(calls[0].args[6], lv)
                    if not okp or pval != P // dims[0]:
                        probs.append(f"the recursion is given sub-array width `{norm(calls[0].args[6])}` = {pval}, expected {P // dims[0]}")
                        break
    if probs:
        r.bad(c.mod, fq(c, f), cons, '; '.join(probs), g.lineno)
    else:
        r.ok(c.mod, fq(c, f), cons)
    # outer call: total width and dimensions of *this* packed array
    ex, outs = sym_run(f)
    for o in outs:
        if o.kind != 'return' or o.value is None:
            continue
        calls = _find_call(o.value, lambda n: _callee_name(n) == g.name)
        if len(calls) != 1:
            continue
        a = [norm(x) for x in calls[0].args]
        p0 = [x.arg for x in f.args.args][-1]
        cons = f"vec_conn_packed_gen: {norm(calls[0])[:140]}"
        if a[5:8] == [f"{p0}.get_dim_sizes()", f"{p0}.get_length()", f"{p0}.get_sub_dtype()"] and a[1] == f.args.args[2].arg:
            r.ok(c.mod, fq(c, f), cons)
        else:
            r.bad(c.mod, fq(c, f), cons, "the traversal must start with the array's own dimensions, total width and element type",
                  o.node.lineno)
    r.evaluations = nev
    r.require_floor(8)
    return r


# ---------------------------------------------------------------------------
_US = re.compile(r"^_+$")


def _mangle_sites(fdef):
    """name-building expressions of a function: concatenations / f-strings whose literal text is underscores only"""
    sites = []
    seen = set()
    for n in ast.walk(fdef):
        if id(n) in seen:
            continue
        e = None
        if isinstance(n, ast.JoinedStr):
            lits = [v.value for v in n.values if isinstance(v, ast.Constant)]
            if lits and all(_US.match(x) for x in lits) and any(isinstance(v, ast.FormattedValue) for v in n.values):
                e = n
        elif isinstance(n, ast.BinOp) and isinstance(n.op, ast.Add):
            p = parent(n)
            if isinstance(p, ast.BinOp) and isinstance(p.op, ast.Add):
                continue          # only the outermost concatenation
            segs = flatten_add(n)
            lits = [x.value for x in segs if isinstance(x, ast.Constant) and isinstance(x.value, str)]
            if lits and all(_US.match(x) for x in lits) and len(segs) > len(lits):
                e = n
        elif isinstance(n, ast.Constant) and isinstance(n.value, str) and re.fullmatch(r"_+\{\}", n.value):
            e = n
        if e is not None:
            for x in ast.walk(e):
                seen.add(id(x))
            sites.append(e)
    return sites


def rule_mangle(repo):
    r = RuleResult('R-C12-mangle', "port, wire, connection and behavioural generators mangle a struct field / array element / "
                                   "interface member / sub-component port with the same separator `__` (parent__child)")
    lk = linker(repo)
    files = [x for x in YS_S[1:] + YS_B[1:] + [YS_UTIL] + SV_S[3:] + SV_B[4:]]
    n = 0
    for rel in files:
        m = repo.mod(rel)
        funcs = []
        for cname in m.classes:
            for mn, f in m.methods(cname).items():
                funcs.append((f"{cname}.{mn}", f))
        for fn, f in m.functions.items():
            funcs.append((fn, f))
        for qn, f in sorted(funcs):
            for e in _mangle_sites(f):
                n += 1
                if isinstance(e, ast.Constant):
                    sk = e.value
                    okm = sk == '__{}'
                else:
                    vs = to_variants(e)
                    sk = vs[0].skeleton() if vs else '?'
                    okm = len(vs) == 1 and re.fullmatch(r"⟨0⟩__⟨1⟩(⟨\d+⟩)*", sk) is not None
                cons = f"{norm(e)[:80]} -> {sk}"
                if okm:
                    r.ok(m, qn, cons)
                else:
                    r.bad(m, qn, cons, "hierarchy name mangling must be <parent>__<child> with exactly two underscores; a generator "
                          "that differs declares / connects a name that its siblings never declare", getattr(e, 'lineno', 0))
    # default separator of the mapped-port helper
    um = repo.mod(YS_UTIL)
    gf = um.functions.get('gen_mapped_ports')
    if gf is None:
        raise AnalysisError("anchor vanished: gen_mapped_ports")
    dflt = {a.arg: d for a, d in zip(gf.args.args[-len(gf.args.defaults):], gf.args.defaults)} if gf.args.defaults else {}
    if 'sep' in dflt:
        if isinstance(dflt['sep'], ast.Constant) and dflt['sep'].value == '__':
            r.ok(um, 'gen_mapped_ports', "sep='__'")
        else:
            r.bad(um, 'gen_mapped_ports', f"sep={norm(dflt['sep'])}", "the port-map helper must mangle with the translator's separator `__`",
                  gf.lineno)
    r.evaluations = n
    r.require_floor(35)
    return r


# ---------------------------------------------------------------------------
def _dims_position(scope_funcs, own_texts):
    """is the generator's own dimension list the first or the last operand of the `A + B` that forms the declared
    wire's dimensions?  -> 'first' / 'last' / None"""
    for f in scope_funcs:
        for n in ast.walk(f):
            if isinstance(n, ast.BinOp) and isinstance(n.op, ast.Add):
                l, rr = n.left, n.right

                def txts(e):
                    if isinstance(e, ast.Name):
                        rv = reaching_value(e.id, n)
                        if rv is not None:
                            return {norm(rv), '~' + norm(e)}
                    return {norm(e)}
                lt, rt_ = txts(l), txts(rr)
                dimsy = lambda ts: any(re.search(r"n_?dim|get_dim_sizes", t) for t in ts)
                if not (dimsy(lt) and dimsy(rt_)):
                    continue
                if lt & own_texts and not (rt_ & own_texts):
                    return 'first'
                if rt_ & own_texts and not (lt & own_texts):
                    return 'last'
    return None


def _leaf_index_chain(g, nested, acc, gparams):
    """ordered list of generator parameters that form the wire index at the leaf of the recursion
    (the accumulator and the parameters emitted directly next to it)"""
    ex, outs = sym_run(g, rename=not nested)
    # parameters that are pieces of a mangled name (cwid__<_wid>) are not part of the index
    name_parts = {x.id for e in _mangle_sites(g) for x in ast.walk(e) if isinstance(x, ast.Name)}
    gparams = [p_ for p_ in gparams if p_ not in name_parts or p_ == acc]
    leaf = [o for o in outs if o.kind == 'return' and o.value is not None and
            not any(isinstance(n, ast.Call) and _callee_name(n) == g.name for n in ast.walk(o.value)) and
            not any(p == 'loop' for t, p in o.conds)]
    chains = []

    def names_of(e):
        segs = flatten_add(e)
        if all(isinstance(x, ast.Name) and x.id in gparams for x in segs):
            return [x.id for x in segs]
        return None
    for o in leaf:
        v = o.value
        # { ..., "idx": <expr> }
        for d in [n for n in ast.walk(v) if isinstance(n, ast.Dict)]:
            for k, val in zip(d.keys, d.values):
                if isinstance(k, ast.Constant) and k.value == 'idx':
                    nm = names_of(val)
                    if nm and acc in nm:
                        chains.append(nm)
        # "...{wid}{acc}{idx}...".format(...)
        for n in ast.walk(v):
            if isinstance(n, ast.Call) and isinstance(n.func, ast.Attribute) and n.func.attr == 'format':
                for var in to_variants(n):
                    run, best = [], None
                    for part in var.parts:
                        if isinstance(part, Hole) and part.kind == 'expr' and part.text in gparams:
                            run.append(part.text)
                        else:
                            if acc in run:
                                best = run
                            run = []
                    if acc in run:
                        best = run
                    if best:
                        chains.append(best)
        # the accumulator is handed on as an argument (dtype_conn_gen(d, pid, wid, idx, dtype))
        if not chains:
            for n in ast.walk(v):
                if isinstance(n, ast.Call) and any(isinstance(a, ast.Name) and a.id == acc for a in n.args):
                    chains.append([acc])
    uniq = sorted({tuple(c) for c in chains})
    if not uniq:
        raise AnalysisError(f"{g.name}: cannot determine how the leaf builds the wire index")
    return [list(c) for c in uniq]


def rule_index_order(repo):
    r = RuleResult('R-C12-index-order', "recursive array generators build the wire index in the order of the declared wire's "
                                        "dimensions, and in the same order as the indices in the mangled flat name (no transposition)")
    lk = linker(repo)
    top = backend_class(repo, 'yosys')
    n = 0
    # candidate generators: (possibly nested) functions with a self-recursive call inside `for i in range(<dims>[0])`
    gens = []
    for c in lk.mro(top):
        if not c.mod.rel.startswith(YS_DIR):
            continue
        for mn, f in sorted(c.methods().items()):
            eff = lk.find(top, mn)
            if eff is None or eff[1] is not f:
                continue
            for g in [f] + _nested_funcs(f):
                class _Lp:
                    def __init__(self, node, target, it):
                        self.node, self.target, self.iter, self.lineno = node, target, it, node.lineno
                lps = []
                for x in walk_no_nested(g):
                    if isinstance(x, ast.For):
                        lps.append(_Lp(x, x.target, x.iter))
                    elif isinstance(x, (ast.ListComp, ast.GeneratorExp)) and len(x.generators) == 1:
                        lps.append(_Lp(x, x.generators[0].target, x.generators[0].iter))
                for lp in lps:
                    if not (isinstance(lp.iter, ast.Call) and norm(lp.iter.func) in ('range', 'reversed')):
                        continue
                    for call in [x for x in ast.walk(lp.node) if isinstance(x, ast.Call)]:
                        nm = _callee_name(call)
                        is_self = (g is f and isinstance(call.func, ast.Attribute) and nm == f.name) or \
                                  (g is not f and isinstance(call.func, ast.Name) and nm == g.name)
                        if is_self:
                            gens.append((c, f, g, lp, call))
    for c, f, g, lp, call in gens:
        iv = norm(lp.target)
        gparams = [a.arg for a in g.args.args]
        if g is f:
            gparams = gparams[1:]
        # resolve local helper names (_pid = f"{pid}__{i}") used as arguments
        binds = {}
        for p, a in zip(gparams, call.args):
            e = a
            if isinstance(a, ast.Name):
                rv = reaching_value(a.id, call)
                if rv is not None:
                    e = rv
            binds[p] = e
        idx_params = []
        name_params = []
        for p, e in binds.items():
            vs = to_variants(e)
            if len(vs) != 1:
                continue
            sk = vs[0].skeleton()
            hs = [h.text for h in hole_list(vs[0].parts)]
            if re.fullmatch(r"⟨0⟩\[⟨1⟩\]", sk) and hs == [p, iv]:
                idx_params.append((p, 'suffix'))
            elif re.fullmatch(r"\[⟨0⟩\]⟨1⟩", sk) and hs == [iv, p]:
                idx_params.append((p, 'prefix'))
            elif re.fullmatch(r"⟨0⟩__⟨1⟩", sk) and hs[0] == p and hs[1] in (iv, f"str({iv})"):
                name_params.append((p, 'suffix'))
            elif re.fullmatch(r"⟨0⟩__⟨1⟩", sk) and hs[1] == p and hs[0] in (iv, f"str({iv})"):
                name_params.append((p, 'prefix'))
        if not idx_params:
            continue          # generators without a wire index (port name enumeration only)
        n += 1
        where = fq(c, f) + ('' if g is f else '.' + g.name)
        if len(idx_params) != 1:
            raise AnalysisError(f"{where}: more than one index accumulator")
        ip, mode = idx_params[0]
        dims_p = None
        mm = re.search(r"(\w+)\[0\]", norm(lp.iter))
        if mm:
            dims_p = mm.group(1)
        asc = dims_p is not None and _ascending_range(lp.iter, f"{dims_p}[0]")
        # where do the generator's own dimensions sit in the declared wire?
        ext = []
        for ff in ([f] if g is not f else [ff for cc in lk.mro(top) if cc.mod.rel.startswith(YS_DIR) for ff in cc.methods().values()]):
            for x in ast.walk(ff):
                if isinstance(x, ast.Call) and x is not call and _callee_name(x) == g.name and not any(x is y for y in ast.walk(g)):
                    ext.append((ff, x))
        own_texts = set()
        init_idx = set()
        by_def = False
        for ff, x in ext:
            args = x.args
            if dims_p in gparams and gparams.index(dims_p) < len(args):
                a = args[gparams.index(dims_p)]
                rv = reaching_value(a.id, x) if isinstance(a, ast.Name) else None
                if rv is not None:
                    own_texts.add(norm(rv))       # identified by its definition (robust against equally named locals)
                    by_def = True
                else:
                    own_texts.add(norm(a))
                    if not isinstance(a, ast.Name):
                        by_def = True             # the defining expression itself is the argument
            if ip in gparams and gparams.index(ip) < len(args):
                init_idx.add(norm(args[gparams.index(ip)]))
        scope_funcs = [ff for ff, x in ext]
        if by_def:
            scope_funcs += [ff for cc in lk.mro(top) if cc.mod.rel.startswith(YS_DIR) for ff in cc.methods().values()]
        pos = _dims_position(scope_funcs, own_texts)
        # how the leaf combines the accumulator with the other index parameters (e.g. `{wid}{c_idx}{idx}`)
        chains = _leaf_index_chain(g, g is not f, ip, gparams)
        # initial values of the chain's parameters at the external call sites ('' = contributes nothing)
        dflt = {}
        pos_args = g.args.args[1:] if g is f else g.args.args
        for a_, d_ in zip(pos_args[len(pos_args) - len(g.args.defaults):], g.args.defaults):
            dflt[a_.arg] = norm(d_)
        verdicts = []
        for chain in chains:
            empty = set()
            for p_ in chain:
                inits = set()
                for ff, x in ext:
                    if p_ in gparams and gparams.index(p_) < len(x.args):
                        inits.add(norm(x.args[gparams.index(p_)]))
                    elif any(k.arg == p_ for k in x.keywords):
                        inits.add(norm([k.value for k in x.keywords if k.arg == p_][0]))
                    elif p_ in dflt:
                        inits.add(dflt[p_])
                    else:
                        inits.add('?')
                if inits and inits <= {"''", '""'}:
                    empty.add(p_)
            # two levels of recursion with loop indices i0 (outer) then i1: order of the indices in the final wire index
            order = []
            for p_ in chain:
                x0 = [] if p_ in empty else ['X']
                if p_ == ip:
                    order += (x0 + ['i0', 'i1']) if mode == 'suffix' else (['i1', 'i0'] + x0)
                else:
                    order += x0
            has_x = 'X' in order
            if pos == 'first':
                want = ['i0', 'i1'] + (['X'] if has_x else [])
            elif pos == 'last':
                want = (['X'] if has_x else []) + ['i0', 'i1']
            else:
                want = ['i0', 'i1'] if not has_x else None
            verdicts.append((chain, order, want))
        # the first chain that disagrees decides; otherwise the first one is reported
        chain, order, want = ([v for v in verdicts if v[2] is None or v[1] != v[2]] or verdicts)[0]
        nm_order = None
        if name_params:
            nm_order = ['i0', 'i1'] if name_params[0][1] == 'suffix' else ['i1', 'i0']
        cons = (f"{g.name}: index {norm(binds[ip])} (leaf: {'+'.join(chain)}), name "
                f"{norm(binds[name_params[0][0]]) if name_params else '-'}; own dims {pos or 'only'}")
        if want is None:
            raise AnalysisError(f"{where}: cannot relate the generator's dimensions to the declared wire ({sorted(own_texts)})")
        got_i = [x for x in order if x != 'X']
        if not asc:
            r.bad(c.mod, where, cons, f"array elements are enumerated as `{norm(lp.iter)}`, not range(n)", lp.lineno)
        elif order != want or (nm_order is not None and nm_order != got_i):
            show = lambda o_: ''.join(f"[{x}]" if x != 'X' else '<idx>' for x in o_) or '<none>'
            r.bad(c.mod, where, cons, f"for a 2-D array the wire index is built as {show(order)} but the wire is declared with "
                  f"dimensions in the order {show(want)} and the flat name enumerates {'__'.join(nm_order or got_i)}: the "
                  f"connection reaches the transposed (or an out-of-range) element", lp.lineno)
        else:
            r.ok(c.mod, where, cons)
    r.evaluations = n
    r.require_floor(4)
    return r


# ---------------------------------------------------------------------------
def rule_deq(repo):
    r = RuleResult('R-C12-deq', "the Yosys structural translator queues exactly one expression record per translated signal "
                                "expression: nested literals inside a struct literal must not queue their own record")
    lk = linker(repo)
    top = backend_class(repo, 'yosys')
    n = 0
    producers = {}
    for name in ('rtlir_tr_struct_instance', 'rtlir_tr_literal_number'):
        res = lk.find(top, name)
        if res is None:
            raise AnalysisError(f"anchor vanished: {name}")
        c, f = res
        # the parameter that guards `s.deq.append(...)`
        guard = None
        apps = [x for x in walk_no_nested(f) if isinstance(x, ast.Call) and norm(x.func).endswith('.deq.append')]
        for a in apps:
            gs = [g_ for g_ in guards_of(a) if g_.kind == 'if' and g_.polarity is True and isinstance(g_.test, ast.Name)]
            if gs:
                guard = gs[0].test.id
            else:
                r.bad(c.mod, fq(c, f), norm(a)[:80], "a record is queued unconditionally: nested uses (fields of a struct literal) "
                      "queue extra records and every later connection pairs the wrong writer/reader expressions", a.lineno)
        if guard is None and apps:
            continue
        if not apps:
            raise AnalysisError(f"{fq(c, f)}: queueing of the expression record not found")
        producers[name] = (c, f, guard)
        n += 1
        r.ok(c.mod, fq(c, f), f"deq.append guarded by `{guard}`")
    c, f, guard = producers.get('rtlir_tr_struct_instance', (None, None, None))
    if f is not None:
        for call in [x for x in ast.walk(f) if isinstance(x, ast.Call) and isinstance(x.func, ast.Attribute)
                     and x.func.attr in producers and isinstance(x.func.value, ast.Name)]:
            pc, pf, pg = producers[call.func.attr]
            params = [a.arg for a in pf.args.args][1:]
            val = None
            if pg in params and params.index(pg) < len(call.args):
                val = call.args[params.index(pg)]
            for k in call.keywords:
                if k.arg == pg:
                    val = k.value
            n += 1
            cons = f"nested {norm(call)[:90]}"
            if isinstance(val, ast.Constant) and val.value is False:
                r.ok(c.mod, fq(c, f), cons)
            else:
                r.bad(c.mod, fq(c, f), cons, f"a literal nested in a struct literal is produced with {pg}="
                      f"{norm(val) if val is not None else 'True (default)'}: it queues its own record, so the next "
                      f"rtlir_tr_connection dequeues a field literal instead of the signal expression", call.lineno)
    # which record of the queue each operation touches: a signal expression is translated bottom-up right after its own record
    # was queued, and a connection queues the writer's record, then the reader's; so while the reader is built the queue holds
    # two records and every amending operation must address the end where producers insert; the consumer removes from the
    # opposite end, first in first out
    qattrs = set()
    for cc in lk.mro(top):
        init = cc.methods().get('__init__')
        for st in (ast.walk(init) if init is not None else ()):
            if isinstance(st, ast.Assign) and isinstance(st.value, ast.Call) and norm(st.value.func) in ('deque', 'collections.deque') \
                    and not st.value.args:
                for t in st.targets:
                    if isinstance(t, ast.Attribute) and isinstance(t.value, ast.Name):
                        qattrs.add(t.attr)
    if not qattrs:
        raise AnalysisError("the queue of expression records (a deque created in __init__) was not found")
    ends, sites = {}, []
    for cc in lk.mro(top):
        if not cc.mod.rel.startswith(YS_DIR):
            continue
        for mname, mf in sorted(cc.methods().items()):
            for x in ast.walk(mf):
                if isinstance(x, ast.Call) and isinstance(x.func, ast.Attribute) and isinstance(x.func.value, ast.Attribute) \
                        and x.func.value.attr in qattrs and isinstance(x.func.value.value, ast.Name):
                    op = x.func.attr
                    if op in ('append', 'appendleft'):
                        ends.setdefault('produce', []).append((cc, mf, x, 1 if op == 'append' else 0))
                    elif op in ('pop', 'popleft'):
                        ends.setdefault('consume', []).append((cc, mf, x, 1 if op == 'pop' else 0))
                    elif op in ('clear',):
                        pass
                    else:
                        raise AnalysisError(f"{fq(cc, mf)}: queue operation outside the abstract domain: {norm(x)[:60]}")
                if isinstance(x, ast.Subscript) and isinstance(x.value, ast.Attribute) and x.value.attr in qattrs \
                        and isinstance(x.value.value, ast.Name):
                    sites.append((cc, mf, x))
    prod_ends = {e_ for _, _, _, e_ in ends.get('produce', [])}
    if len(prod_ends) != 1:
        raise AnalysisError("records are queued at both ends (or nowhere): the queue discipline is outside the abstract domain")
    pend = prod_ends.pop()
    for cc, mf, x, e_ in ends.get('consume', []):
        n += 1
        cons = f"{mf.name}: {norm(x)}"
        if e_ == pend:
            r.bad(cc.mod, fq(cc, mf), cons, "a record is removed from the end where records are inserted: a connection would take "
                  "the reader's record first and pair it with the writer's text", x.lineno)
        else:
            r.ok(cc.mod, fq(cc, mf), cons)
    qn = next(iter(qattrs))
    seen_sites = set()
    for cc, mf, x in sites:
        key = (fq(cc, mf), norm(x))
        if key in seen_sites:
            continue
        seen_sites.add(key)
        n += 1
        where = []
        for qlen in (1, 2, 3):
            ok_, k_ = try_ev(x.slice, {f"len({norm(x.value)})": qlen})
            if not ok_ or not isinstance(k_, int) or isinstance(k_, bool) or not -qlen <= k_ < qlen:
                where = None
                break
            where.append(k_ % qlen)
        cons = f"{mf.name}: amends {norm(x)}"
        want = [q_ - 1 if pend == 1 else 0 for q_ in (1, 2, 3)]
        if where is None:
            r.bad(cc.mod, fq(cc, mf), cons, "the record that is amended cannot be determined (index outside the abstract domain)", x.lineno)
        elif where != want:
            r.bad(cc.mod, fq(cc, mf), cons, f"with 1 / 2 / 3 records queued this addresses record {where} (0 = oldest), the record of the "
                  f"expression under construction is {want}: while the READER of a connection is translated the queue also holds "
                  f"the writer's record, so the index / attribute is added to the writer's text and is missing from the reader's", x.lineno)
        else:
            r.ok(cc.mod, fq(cc, mf), cons)
    r.evaluations = n
    r.require_floor(5 + 2 + 12)
    return r


def rule_wire_forms(repo):
    r = RuleResult('R-C12-wire-forms', "every declaration that creates both the packed form and the per-field / per-element forms "
                                       "of a signal also emits the assigns that tie them together")
    lk = linker(repo)
    top = backend_class(repo, 'yosys')
    n = 0
    for name, (c, f) in sorted(lk.effective_methods(top).items()):
        if not c.mod.rel.startswith(YS_DIR):
            continue
        calls = {_callee_name(x) for x in ast.walk(f) if isinstance(x, ast.Call) and isinstance(x.func, ast.Attribute)
                 and isinstance(x.func.value, ast.Name) and x.func.value.id == f.args.args[0].arg}
        if 'port_wire_gen' in calls and name not in ('port_wire_gen',):
            n += 1
            cons = f"{name}: port_wire_gen{' + port_connection_gen' if 'port_connection_gen' in calls else ''}"
            if 'port_connection_gen' in calls:
                r.ok(c.mod, fq(c, f), cons)
            else:
                r.bad(c.mod, fq(c, f), cons, "declares the packed wire and the per-field wires of a struct / array signal "
                      "(port_wire_gen) but never connects them (no port_connection_gen): a block that writes the whole signal "
                      "and a reader of one field (or vice versa) are not connected in the emitted Verilog", f.lineno)
    # ---- record markers: the wire-declaration and the connection pipelines pass records (dicts) through several stages;
    # a record carries the marker "present" when it must be emitted even for scalar shapes (packed form of a struct).
    # (A) every stage that rebuilds a record forwards the marker; (B) in every stage that filters both kinds of
    # records, a connection that is emitted refers to a wire that is declared (same own-dimension disjuncts, marker
    # honoured on the wire side whenever it is on the connection side).
    MARK = 'present'
    shapes = set()
    ymods = [repo.mod(rel) for rel in YS_S[1:]]
    for m_ in ymods:
        for d in [x for x in ast.walk(m_.tree) if isinstance(x, ast.Dict)]:
            ks = [k.value for k in d.keys if isinstance(k, ast.Constant) and isinstance(k.value, str)]
            if MARK in ks and len(ks) == len(d.keys):
                shapes.add(frozenset(ks) - {MARK})
    if len(shapes) < 2:
        raise AnalysisError(f"R-C12-wire-forms: record kinds carrying the '{MARK}' marker not found ({sorted(map(sorted, shapes))})")

    def kind_of(keys):
        for sh in shapes:
            if keys and keys <= sh and len(keys) >= min(3, len(sh)):
                return sh
        return None

    def is_mark_test(e, rec):
        return isinstance(e, ast.Compare) and len(e.ops) == 1 and isinstance(e.ops[0], ast.In) and \
            isinstance(e.left, ast.Constant) and e.left.value == MARK and norm(e.comparators[0]) == rec
    n_rebuild = n_filter = 0
    for name, (c, f) in sorted(lk.effective_methods(top).items()):
        if not c.mod.rel.startswith(YS_DIR):
            continue
        ctors = {}
        for g in _nested_funcs(f):
            ksets = [frozenset(k.value for k in d.keys if isinstance(k, ast.Constant)) - {MARK}
                     for d in ast.walk(g) if isinstance(d, ast.Dict) and d.keys]
            ksets = [k for k in ksets if k in shapes]
            if ksets:
                ctors[g.name] = ksets[0]
        filters = {}
        for lp in [x for x in walk_no_nested(f) if isinstance(x, ast.For) and isinstance(x.target, ast.Name)]:
            rec = lp.target.id
            reads = {x.slice.value for x in ast.walk(lp) if isinstance(x, ast.Subscript) and isinstance(x.value, ast.Name)
                     and x.value.id == rec and isinstance(x.slice, ast.Constant) and isinstance(x.slice.value, str)} - {MARK}
            sh = kind_of(frozenset(reads))
            if sh is None:
                continue
            body_nodes = [x for st in lp.body for x in ast.walk(st)]
            produced = [x for x in body_nodes if isinstance(x, ast.Dict) and x.keys and
                        frozenset(k.value for k in x.keys if isinstance(k, ast.Constant)) - {MARK} == sh]
            produced += [x for x in body_nodes if isinstance(x, ast.Call) and isinstance(x.func, ast.Name) and ctors.get(x.func.id) == sh]
            tests = [x for x in body_nodes if is_mark_test(x, rec)]
            kind_txt = 'wire record' if 'n_dim' in sh else 'connection record'
            if produced:
                n_rebuild += 1
                lit = any(isinstance(x, ast.Dict) and any(isinstance(k, ast.Constant) and k.value == MARK for k in x.keys) for x in produced)
                sets = [x for x in body_nodes if isinstance(x, ast.Assign) and len(x.targets) == 1 and isinstance(x.targets[0], ast.Subscript)
                        and isinstance(x.targets[0].slice, ast.Constant) and x.targets[0].slice.value == MARK]
                flag_names = {t.targets[0].id for t in body_nodes if isinstance(t, ast.Assign) and len(t.targets) == 1
                              and isinstance(t.targets[0], ast.Name) and is_mark_test(t.value, rec)}
                guarded = [x for x in sets if any(g_.kind == 'if' and g_.polarity is True and
                                                  (is_mark_test(g_.test, rec) or norm(g_.test) in flag_names) for g_ in guards_of(x))]
                cons = f"{name}: {kind_txt}s of `{rec}` rebuilt ({norm(produced[0])[:70]})"
                if (tests and guarded) or (lit and tests):
                    r.ok(c.mod, fq(c, f), cons + f", '{MARK}' forwarded")
                else:
                    r.bad(c.mod, fq(c, f), cons, f"this stage builds new {kind_txt}s from the incoming ones without forwarding the "
                          f"'{MARK}' marker; the next stage emits a scalar (non-array) record only when it is marked, so for a "
                          f"scalar sub-component / interface with a struct port the "
                          f"{'declaration of the packed wire is dropped while the assigns through it remain (undeclared net)' if 'n_dim' in sh else 'assigns between the packed wire and the flat ports are dropped'}",
                          lp.lineno)
            # filters: `if <own dims> or <record dims/index> or 'present' in rec`
            for iff in [x for x in body_nodes if isinstance(x, ast.If)]:
                test = iff.test
                # `if not ( A or B or marked ): continue` / `if not A and not B and 'mark' not in rec: continue` guard the rest
                # of the iteration exactly like `if A or B or marked:` guards its body
                if not iff.orelse and iff.body and all(isinstance(st, ast.Continue) for st in iff.body):
                    if isinstance(test, ast.UnaryOp) and isinstance(test.op, ast.Not):
                        test = test.operand
                    elif isinstance(test, ast.BoolOp) and isinstance(test.op, ast.And):
                        negs = []
                        for x in test.values:
                            if isinstance(x, ast.UnaryOp) and isinstance(x.op, ast.Not):
                                negs.append(x.operand)
                            elif isinstance(x, ast.Compare) and len(x.ops) == 1 and isinstance(x.ops[0], ast.NotIn):
                                negs.append(ast.Compare(left=x.left, ops=[ast.In()], comparators=x.comparators))
                            else:
                                negs = None
                                break
                        if negs:
                            test = ast.BoolOp(op=ast.Or(), values=negs)
                disj = test.values if isinstance(test, ast.BoolOp) and isinstance(test.op, ast.Or) else [test]
                if not any(is_mark_test(x, rec) for x in disj) and not any(
                        isinstance(x, ast.Name) and norm(reaching_value(x.id, iff) or x) in (f"{rec}['n_dim']", f"{rec}['idx']") for x in disj):
                    continue
                own = set()
                for x in disj:
                    if is_mark_test(x, rec):
                        own.add('<marker>')
                        continue
                    t = norm(x)
                    rv = reaching_value(x.id, iff) if isinstance(x, ast.Name) else None
                    src = norm(rv) if rv is not None else t
                    own.add('<record>' if re.fullmatch(rf"{rec}\[.*\]", src) else t)
                filters.setdefault('wire' if 'n_dim' in sh else 'conn', []).append((own, iff))
        if filters.get('conn'):
            n_filter += 1
            cown, ciff = filters['conn'][0]
            if not filters.get('wire'):
                r.ok(c.mod, fq(c, f), f"{name}: connections filtered by {sorted(cown)}, wires declared unconditionally", nontrivial=False)
            else:
                wown, wiff = filters['wire'][0]
                cons = f"{name}: declare if {norm(wiff.test)} / connect if {norm(ciff.test)}"
                missing = cown - wown
                if missing:
                    r.bad(c.mod, fq(c, f), cons, f"a connection is emitted under {sorted(missing)} although the wire it goes through "
                          f"is not declared under that condition (undeclared implicit 1-bit net)", wiff.lineno)
                else:
                    r.ok(c.mod, fq(c, f), cons)
    # an output port is glued flat <- packed; if the behavioural emitter writes struct fields by their flat names whatever side
    # of the assignment they are on, a field written in an update block has two drivers (known finding D24)
    res_pd = lk.find(top, 'rtlir_tr_port_decl')
    vis_y = tov_visitor(repo, 'yosys')
    if res_pd is not None:
        pc, pf = res_pd
        flat_from_packed = any(isinstance(x, ast.Constant) and isinstance(x.value, str) and
                               re.fullmatch(r"assign \{pid\} = \{wid\}\{idx\};", x.value.strip()) for x in ast.walk(pf))
        lhs_aware = any(isinstance(x, ast.Attribute) and x.attr == 'is_assign_LHS'
                        for cc_, ff_ in lk.all_defs(vis_y, 'visit_Attribute') for x in ast.walk(ff_))
        cons = "rtlir_tr_port_decl: struct output glued flat <- packed, fields written by flat name"
        if flat_from_packed and not lhs_aware:
            r.bad(pc.mod, fq(pc, pf), cons,
                  "struct-typed OUTPUT ports: the port glue drives the flat ports from the packed wire (assign o__a = o[7:4]) while "
                  "visit_Attribute names a struct field by its flat name also on the left-hand side, so a design that writes the "
                  "fields in an update block drives o__a twice (always block and glue assign) and never drives the packed wire o",
                  pf.lineno)
        else:
            r.ok(pc.mod, fq(pc, pf), cons)
    if n_rebuild < 2 or n_filter < 3:
        raise AnalysisError(f"R-C12-wire-forms: record pipeline not recognised ({n_rebuild} rebuild stages, {n_filter} filter stages)")
    r.evaluations = n + n_rebuild + n_filter
    r.require_floor(2 + 2 + 3)
    return r


# ---------------------------------------------------------------------------
def eval_order_calls(e):
    """Call nodes of an expression in Python evaluation order (callee object, then arguments, then the call)"""
    out = []

    def go(n):
        if isinstance(n, ast.Call):
            go(n.func)
            for a in n.args:
                go(a)
            for k in n.keywords:
                go(k.value)
            out.append(n)
        elif isinstance(n, (ast.Lambda, ast.ListComp, ast.GeneratorExp, ast.SetComp, ast.DictComp)):
            for ch in ast.iter_child_nodes(n):
                go(ch)
        elif isinstance(n, ast.AST):
            for ch in ast.iter_child_nodes(n):
                go(ch)
    go(e)
    return out


def rule_index_queue(repo, backend):
    r = RuleResult('R-tr-index-queue', f"[{backend}] array indices that are pending in the visitor's shared index queue belong to the "
                                       f"expression being built: while they are pending (after the base was visited / an index was "
                                       f"queued, before the flush) no other sub-expression is translated")
    lk = linker(repo)
    vis = tov_visitor(repo, backend)
    n = 0
    # methods that run: effective handlers and what they reach through super()
    todo = []
    for name, (c, f) in sorted(lk.effective_methods(vis).items()):
        if not name.startswith('visit_'):
            continue
        for cc, ff in lk.all_defs(vis, name):
            todo.append((cc, ff))
            if not any(is_passthrough(x, name) for x in ast.walk(ff) if isinstance(x, ast.Call)):
                break
    queue_attr = None
    for c, f in todo:
        me = f.args.args[0].arg
        nd = f.args.args[1].arg if len(f.args.args) > 1 else 'node'
        src = ast.dump(f)
        if '_q' not in src:
            continue
        ex, outs = sym_run(f, rename=False)
        reported = set()
        had = False
        for o in outs:
            if o.kind not in ('return', 'fall'):
                continue
            seq = []
            for ev_ in o.events:
                for call in eval_order_calls(ev_):
                    fn = call.func
                    if not isinstance(fn, ast.Attribute):
                        continue
                    if isinstance(fn.value, ast.Name) and fn.value.id == me and fn.attr.startswith('visit') and len(call.args) >= 1 \
                            and isinstance(call.args[0], ast.Attribute) and norm(call.args[0].value) == nd:
                        seq.append(('V', call.args[0].attr, call))
                    elif isinstance(fn.value, ast.Attribute) and norm(fn.value.value) == me and fn.value.attr.endswith('_q') \
                            and fn.attr in ('append', 'appendleft', 'extend', 'extendleft', 'insert'):
                        seq.append(('PUSH', fn.value.attr, call))
                    elif isinstance(fn.value, ast.Name) and fn.value.id == me and 'unpacked_q' in fn.attr:
                        seq.append(('FLUSH', fn.attr, call))
            if not any(k in ('PUSH', 'FLUSH') for k, _, _ in seq):
                continue
            had = True
            pending = None
            viol = None
            for kind, what, call in seq:
                if kind == 'PUSH':
                    pending = pending or f"index queued by {norm(call)[:50]}"
                elif kind == 'FLUSH':
                    pending = None
                elif kind == 'V':
                    if what == 'value':
                        pending = pending or f"indices left pending by the base {norm(call)}"
                    elif pending is not None and viol is None:
                        viol = (what, pending, call)
            order = ' ; '.join(f"visit({w})" if k == 'V' else k.lower() for k, w, _ in seq)
            cons = f"{f.name}: {order}"
            if viol:
                if cons not in reported:
                    reported.add(cons)
                    what, pend, call = viol
                    r.bad(c.mod, fq(c, f), cons, f"{nd}.{what} is translated while the queue still holds {pend}: the nested expression "
                          f"flushes the queue into its own text, e.g. s.lane[1].data[ s.lane[0].sel ] becomes "
                          f"lane__data[ lane__sel[0][1] ] instead of lane__data[1][ lane__sel[0] ]", call.lineno)
            elif cons not in reported:
                reported.add(cons)
                r.ok(c.mod, fq(c, f), cons)
                n += 1
    if not r.instances:
        r.ok(vis.mod, vis.name, "no handler of this visitor shares a pending-index queue between sub-expressions", nontrivial=False)
    r.evaluations = n
    r.require_floor(4 if backend == 'sv' else 1)
    return r


# ---------------------------------------------------------------------------
_FRESH_CALLS = ('dict', 'set', 'list', 'OrderedDict', 'collections.OrderedDict', 'defaultdict')


def _is_fresh_container(e):
    if isinstance(e, (ast.Dict, ast.Set, ast.List)) and not (getattr(e, 'keys', None) or getattr(e, 'elts', None)):
        return True
    return isinstance(e, ast.Call) and norm(e.func) in _FRESH_CALLS and not e.args


def dedup_scope_findings(translate, clear_defs, emit_names=('rtlir_tr_component',)):
    """For every container whose membership test guards the emission of a module definition inside `translate`
    (closures included): is it created afresh by this translate() call?  -> list of (container text, ok, why, node)"""
    me = translate.args.args[0].arg
    out = []
    funcs = [translate] + _nested_funcs(translate)
    for g in funcs:
        for call in [x for x in walk_no_nested(g) if isinstance(x, ast.Call) and isinstance(x.func, ast.Attribute)
                     and x.func.attr in emit_names]:
            for gd in guards_of(call):
                if gd.kind != 'if':
                    continue
                for t in ast.walk(gd.test):
                    if isinstance(t, ast.Compare) and len(t.ops) == 1 and isinstance(t.ops[0], (ast.In, ast.NotIn)):
                        out.append(_judge_container(t.comparators[0], g, translate, clear_defs, me, call))
    return out


def _judge_container(cexpr, g, translate, clear_defs, me, at):
    txt = norm(cexpr)

    def fresh_assign_in(fn, attr_txt, self_name):
        for n in walk_no_nested(fn):
            if isinstance(n, ast.Assign) and any(norm(t).replace(self_name + '.', 'SELF.', 1) == attr_txt for t in n.targets) \
                    and _is_fresh_container(n.value):
                if not [x for x in guards_of(n) if x.kind in ('if', 'loop', 'except')]:
                    return True
        return False
    # a parameter of a closure: follow it to the arguments given by translate()
    if isinstance(cexpr, ast.Name) and g is not translate and cexpr.id in [a.arg for a in g.args.args]:
        idx = [a.arg for a in g.args.args].index(cexpr.id)
        args = []
        for fn in [translate] + _nested_funcs(translate):
            for c_ in [x for x in walk_no_nested(fn) if isinstance(x, ast.Call) and isinstance(x.func, ast.Name) and x.func.id == g.name]:
                if idx < len(c_.args):
                    a = c_.args[idx]
                    if not (fn is g and isinstance(a, ast.Name) and a.id == cexpr.id):
                        args.append((fn, a))
        if not args:
            return (txt, False, "the container is a parameter whose origin cannot be found", at)
        res = [_judge_container(a, fn, translate, clear_defs, me, at) for fn, a in args]
        bad = [x for x in res if not x[1]]
        return (txt + ' <- ' + ', '.join(x[0] for x in res), not bad, bad[0][2] if bad else 'created by this translate() call', at)
    if isinstance(cexpr, ast.Name):
        # local of translate() (closure variable) assigned a fresh container
        rv = None
        for n in walk_no_nested(translate):
            if isinstance(n, ast.Assign) and any(isinstance(t, ast.Name) and t.id == cexpr.id for t in n.targets):
                rv = n
        if rv is not None and _is_fresh_container(rv.value) and not [x for x in guards_of(rv) if x.kind in ('if', 'loop')]:
            return (txt, True, 'local container of translate()', at)
        return (txt, False, f"`{txt}` is not a container created inside translate() (module / class level state)", at)
    if norm(cexpr).startswith(me + '.'):
        attr_txt = 'SELF.' + norm(cexpr)[len(me) + 1:]
        if fresh_assign_in(translate, attr_txt, me):
            return (txt, True, 'reset unconditionally in translate()', at)
        for cd in clear_defs:
            if fresh_assign_in(cd, attr_txt, cd.args.args[0].arg) and any(
                    isinstance(x, ast.Call) and norm(x.func) == f"{me}.clear" and not [y for y in guards_of(x) if y.kind in ('if', 'loop')]
                    for x in walk_no_nested(translate)):
                return (txt, True, 'reset by clear(), which translate() calls unconditionally', at)
        return (txt, False, f"`{txt}` lives on the translator object and is not reset at the start of translate()", at)
    return (txt, False, f"origin of `{txt}` not recognised", at)


_DEDUP_EXAMPLE = """
class Tr:
  def translate( s, top ):
    def translate_component( m, components ):
      name = s.names[m]
      if name not in s._generated:
        s._generated.add( name )
        components[name] = s.rtlir_tr_component( m )
    if not hasattr( s, '_generated' ):
      s._generated = set()
    s.out = {}
    translate_component( top, s.out )
"""


def rule_dedup_scope(repo, backend):
    r = RuleResult('R-tr-dedup-scope', f"[{backend}] the container consulted to skip emitting a module definition is created by the "
                                       f"translate() call whose output it filters (state surviving translate() makes a later output "
                                       f"file instantiate modules it does not define)")
    lk = linker(repo)
    top = backend_class(repo, backend)
    res = lk.find(top, 'translate')
    if res is None:
        raise AnalysisError("anchor vanished: translate")
    c, f = res
    clear_defs = [ff for cc, ff in lk.all_defs(top, 'clear')]
    found = dedup_scope_findings(f, clear_defs)
    if not found:
        raise AnalysisError(f"{fq(c, f)}: no de-duplication guard around rtlir_tr_component found")
    for txt, ok, why, at in found:
        cons = f"skip definition if name in {txt}"
        if ok:
            r.ok(c.mod, fq(c, f), cons, note=why)
        else:
            r.bad(c.mod, fq(c, f), cons, f"{why}: after a first translate() the names stay recorded, so a second translate() on the same "
                  f"translator (VerilogTranslationPass.enable on two sub-trees) skips the definition of a module its output "
                  f"instantiates", at.lineno)
    # embedded positive example (expected finding count on the real tree is zero)
    ex = ast.parse(_DEDUP_EXAMPLE)
    from .loader import _set_parents
    _set_parents(ex)
    tf = ex.body[0].body[0]
    probe = dedup_scope_findings(tf, [])
    if not probe or all(ok for _, ok, _, _ in probe):
        raise AnalysisError("R-tr-dedup-scope: the embedded example of translator-lifetime de-duplication state was not flagged")
    r.evaluations = len(found) + len(probe)
    r.require_floor(1)
    return r


# ===========================================================================
# I. state-lifetime and text-integrity rules over the back-end sources
# ===========================================================================
def loop_stale_uses(fn):
    """(var, use node, loop) for loads inside a for-loop body not dominated by an in-iteration definition although the
    variable is (plainly) assigned somewhere in that loop body"""
    out = []
    def names_stored(t):
        return {x.id for x in ast.walk(t) if isinstance(x, ast.Name) and isinstance(x.ctx, ast.Store)}
    def loads(e, bound=()):
        res = []
        def go(n, bound):
            if isinstance(n, (ast.ListComp, ast.SetComp, ast.GeneratorExp, ast.DictComp)):
                b = set(bound)
                for g in n.generators:
                    go(g.iter, b); b |= names_stored(g.target)
                    for c in g.ifs: go(c, b)
                for ch in ([n.elt] if not isinstance(n, ast.DictComp) else [n.key, n.value]): go(ch, b)
                return
            if isinstance(n, ast.Lambda):
                go(n.body, set(bound) | {a.arg for a in n.args.args}); return
            if isinstance(n, (ast.FunctionDef, ast.ClassDef)): return
            if isinstance(n, ast.Name) and isinstance(n.ctx, ast.Load) and n.id not in bound:
                res.append(n)
            for ch in ast.iter_child_nodes(n): go(ch, bound)
        go(e, set(bound)); return res
    def plain_assigned_in(body):
        vs = set()
        for st in body:
            for n in walk_no_nested(st):
                if isinstance(n, ast.Assign):
                    tg = set()
                    for t in n.targets: tg |= names_stored(t)
                    used = {x.id for x in loads(n.value)}
                    vs |= {v for v in tg if v not in used}
                elif isinstance(n, (ast.For,)):
                    pass
        return vs
    def block(stmts, defined, watch, loop):
        d = set(defined)
        for st in stmts:
            d = stmt(st, d, watch, loop)
        return d
    def check(expr, d, watch, loop):
        for n in loads(expr):
            if n.id in watch and n.id not in d:
                out.append((n.id, n, loop))
    def stmt(st, d, watch, loop):
        if isinstance(st, ast.Assign):
            check(st.value, d, watch, loop)
            for t in st.targets:
                for x in ast.walk(t):
                    if not isinstance(x, ast.Name): pass
                if not isinstance(t, ast.Name) and not isinstance(t, (ast.Tuple, ast.List)): check(t, d, watch, loop)
                d = d | names_stored(t)
            return d
        if isinstance(st, ast.AugAssign):
            check(st.value, d, watch, loop)
            if isinstance(st.target, ast.Name):
                if st.target.id in watch and st.target.id not in d: out.append((st.target.id, st.target, loop))
            else: check(st.target, d, watch, loop)
            return d | names_stored(st.target)
        if isinstance(st, ast.If):
            check(st.test, d, watch, loop)
            a = block(st.body, d, watch, loop); b = block(st.orelse, d, watch, loop)
            ea, eb = always_exits(st.body), bool(st.orelse) and always_exits(st.orelse)
            if ea and eb: return a | b
            if ea: return b
            if eb: return a
            return a & b
        if isinstance(st, ast.For):
            check(st.iter, d, watch, loop)
            inner_watch = plain_assigned_in(st.body)
            block(st.body, d | names_stored(st.target), set(watch) | inner_watch, st)   # nested loop: own iteration scope for its vars
            # names of the nested loop's body are (re)checked with the nested loop as owner; outer `defined` unchanged
            block(st.orelse, d, watch, loop)
            return d
        if isinstance(st, ast.While):
            check(st.test, d, watch, loop); block(st.body, d, watch, loop); return d
        if isinstance(st, ast.With):
            for it in st.items:
                check(it.context_expr, d, watch, loop)
                if it.optional_vars is not None: d = d | names_stored(it.optional_vars)
            return block(st.body, d, watch, loop)
        if isinstance(st, ast.Try):
            a = block(st.body, d, watch, loop)
            hs = [block(h.body, d, watch, loop) for h in st.handlers]
            res = a
            for h in hs: res = res & h
            return block(st.finalbody, res, watch, loop) if st.finalbody else res
        if isinstance(st, (ast.FunctionDef, ast.ClassDef)):
            return d | {st.name}
        for ch in ast.iter_child_nodes(st):
            if isinstance(ch, ast.expr): check(ch, d, watch, loop)
        return d
    for lp in [x for x in walk_no_nested(fn) if isinstance(x, ast.For)]:
        # only outermost handling here: every loop is analysed as its own iteration scope
        watch = plain_assigned_in(lp.body)
        if not watch: continue
        before = len(out)
        block(lp.body, names_stored(lp.target), watch, lp)
    # de-duplicate
    seen, res = set(), []
    for v, n, lp in out:
        k = (v, n.lineno, n.col_offset)
        if k not in seen:
            seen.add(k); res.append((v, n, lp))
    return res



_GROW_METHODS = ('append', 'extend', 'add', 'update', 'insert', 'appendleft', 'extendleft', 'setdefault')
_PURE_CALLS = ('len', 'isinstance', 'print', 'str', 'repr', 'bool', 'id', 'type')


def hoisted_accumulators(fn):
    """(name, loop, init statement, consuming node): a container that is created before a loop, grown inside the loop and handed
    on (as a call argument / stored element) inside the same loop without being created afresh there, and that nothing reads after
    the loop -- what is handed on in iteration k still holds the items of the iterations before k"""
    out = []
    inits = [st for st in walk_no_nested(fn) if isinstance(st, ast.Assign) and _is_fresh_container(st.value)]
    inits += [st for st in walk_no_nested(fn) if isinstance(st, ast.Assign) and isinstance(st.value, ast.Tuple) and st.value.elts
              and all(_is_fresh_container(x) for x in st.value.elts)]
    names = set()
    for st in inits:
        for t in st.targets:
            names |= {x.id for x in ast.walk(t) if isinstance(x, ast.Name)}
    loops = [x for x in walk_no_nested(fn) if isinstance(x, ast.For)]

    def inside(node, lp):
        return any(node is x for x in ast.walk(lp) if x is not lp) and not any(node is x for x in ast.walk(lp.iter))

    for a in sorted(names):
        stores = [x for x in walk_no_nested(fn) if isinstance(x, ast.Name) and x.id == a and isinstance(x.ctx, ast.Store)]
        loads = [x for x in walk_no_nested(fn) if isinstance(x, ast.Name) and x.id == a and isinstance(x.ctx, ast.Load)]
        for lp in loops:
            if any(inside(x, lp) for x in stores) or any(x.id == a for x in ast.walk(lp.target) if isinstance(x, ast.Name)):
                continue              # (re)assigned in the loop: per-iteration state, judged by the stale-use clause
            init = [st for st in inits if not inside(st, lp) and st.lineno < lp.lineno and
                    any(isinstance(x, ast.Name) and x.id == a for t in st.targets for x in ast.walk(t))]
            if not init:
                continue
            grows, consumes = [], []
            for u in loads:
                if not inside(u, lp):
                    continue
                pu = parent(u)
                if isinstance(pu, ast.Attribute) and pu.value is u and isinstance(parent(pu), ast.Call) and parent(pu).func is pu:
                    if pu.attr in _GROW_METHODS:
                        grows.append(u)
                    continue
                if isinstance(pu, ast.AugAssign) and pu.target is u:
                    grows.append(u)
                    continue
                if isinstance(pu, ast.Subscript) and pu.value is u and isinstance(pu.ctx, ast.Store):
                    grows.append(u)
                    continue
                # handed on: argument of a call (directly or inside a literal), element stored elsewhere, yielded
                q, via = pu, u
                while isinstance(q, (ast.Tuple, ast.List, ast.Dict, ast.Starred, ast.keyword)):
                    q, via = parent(q), q
                if isinstance(q, ast.Call) and via is not q.func and norm(q.func) not in _PURE_CALLS:
                    consumes.append(u)
                elif isinstance(q, (ast.Yield, ast.Return)):
                    consumes.append(u)
                elif isinstance(q, ast.Assign) and any(isinstance(t, (ast.Subscript, ast.Attribute)) for t in q.targets):
                    consumes.append(u)
            aug = [x for x in stores if inside(x, lp)]
            if not grows or not consumes:
                continue
            # the innermost loop that holds both
            if any(inside(l2, lp) and all(inside(x, l2) for x in grows + consumes) for l2 in loops if l2 is not lp):
                continue
            end = getattr(lp, 'end_lineno', lp.lineno)
            if any(not inside(x, lp) and x.lineno > end for x in loads):
                continue              # the whole-loop result is read after the loop
            out.append((a, lp, init[-1], consumes[0]))
    return out


def backend_files(backend):
    gen = [G_S1, G_S2, G_S3, G_S4, G_B1, GENERIC + 'behavioral/BehavioralTranslatorL2.py', G_RTLIR_TR,
           GENERIC + 'BaseRTLIRTranslator.py']
    sv = [x for x in SV_S[1:] + SV_B[1:]] + [SV_TR, 'pymtl3/passes/backends/verilog/util/utility.py']
    ys = [x for x in YS_S[1:] + YS_B[1:]] + [YS_TR, YS_UTIL]
    return gen + sv + (ys if backend == 'yosys' else [])


def all_functions(mod):
    out = []
    for cn in mod.classes:
        for mn, f in mod.methods(cn).items():
            out.append((f"{cn}.{mn}", f))
    for fn_, f in mod.functions.items():
        out.append((fn_, f))
    res = []
    for q, f in sorted(out, key=lambda x: x[0]):
        res.append((q, f))
        for g in _nested_funcs(f):
            res.append((f"{q}.{g.name}", g))
    return res


def rule_loop_state(repo, backend):
    r = RuleResult('R-tr-loop-state', f"[{backend}] per-iteration state of the generator loops is defined in the same iteration on "
                                      f"every path before it is used (no value leaking from the previous port / field / member)")
    n = 0
    for rel in backend_files(backend):
        m = repo.mod(rel)
        for q, g in all_functions(m):
            loops = [x for x in walk_no_nested(g) if isinstance(x, ast.For)]
            if not loops:
                continue
            stale = loop_stale_uses(g)
            flagged = set()
            for v, node, lp in stale:
                # running minimum / flag: the update is conditioned on the variable's own previous value
                asg = [a for a in ast.walk(lp) if isinstance(a, ast.Assign) and any(isinstance(t, ast.Name) and t.id == v for t in a.targets)]
                if asg and all(any(gd.kind == 'if' and v in {x.id for x in ast.walk(gd.test) if isinstance(x, ast.Name)}
                                   for gd in guards_of(a, stop=lp)) for a in asg):
                    continue
                key = (v, norm(lp.target))
                if key in flagged:
                    continue
                flagged.add(key)
                r.bad(m, q, f"`{v}` in `for {norm(lp.target)} in {norm(lp.iter)[:50]}`: used in {norm(stmt_of_node(node))[:80]}",
                      f"`{v}` is assigned only on some paths of an iteration and read afterwards: for an item that does not take the "
                      f"assigning branch the value of the PREVIOUS item is used (e.g. the array type of a port list leaks into the next "
                      f"scalar member, which is then flattened as an array)", node.lineno)
            hoisted = hoisted_accumulators(g)
            for a, lp, init, use in hoisted:
                r.bad(m, q, f"`{a}` in `for {norm(lp.target)} in {norm(lp.iter)[:50]}`: handed on in {norm(stmt_of_node(use))[:60]}",
                      f"`{a}` is created once before this loop (line {init.lineno}), grown inside it and handed on in every iteration, "
                      f"and nothing reads it after the loop: what iteration k hands on still contains the items of the iterations "
                      f"before k (e.g. the second interface of a sub-component re-declares the ports of the first one) -- a "
                      f"per-iteration accumulator must be created inside the loop", use.lineno)
            for lp in loops:
                n += 1
                if not any(l is lp for _, _, l in stale) and not any(l is lp for _, l, _, _ in hoisted):
                    r.ok(m, q, f"for {norm(lp.target)} in {norm(lp.iter)[:60]}", nontrivial=False)
    r.evaluations = n
    r.require_floor(55 if backend == 'sv' else 110)
    return r


def stmt_of_node(n):
    cur = n
    while cur is not None and not isinstance(cur, ast.stmt):
        cur = parent(cur)
    return cur if cur is not None else n


# ---------------------------------------------------------------------------
_MUTABLE_CALLS = ('dict', 'set', 'list', 'OrderedDict', 'collections.OrderedDict', 'defaultdict', 'collections.defaultdict', 'deque')


def _is_mutable_container(e):
    if isinstance(e, (ast.Dict, ast.Set, ast.List)):
        return True
    return isinstance(e, ast.Call) and norm(e.func) in _MUTABLE_CALLS


def _name_only_key(e):
    t = norm(e)
    return bool(re.search(r"__name__|get_name\(\)|\bstr\(|\brepr\(|get_class\(\)", t)) or isinstance(e, ast.JoinedStr)


def memo_scope_findings(tree, method_index=None):
    """class- / module-level mutable containers that translator code writes to: (where, container, key text, ok, why, node)"""
    out = []
    # module level
    mod_level = {}
    for st in tree.body:
        if isinstance(st, ast.Assign) and len(st.targets) == 1 and isinstance(st.targets[0], ast.Name) and _is_mutable_container(st.value):
            mod_level[st.targets[0].id] = st
    classes = [c for c in ast.walk(tree) if isinstance(c, ast.ClassDef)]
    cls_level = {}
    for c in classes:
        for st in c.body:
            if isinstance(st, ast.Assign) and len(st.targets) == 1 and isinstance(st.targets[0], ast.Name) and _is_mutable_container(st.value):
                cls_level[(c.name, st.targets[0].id)] = st
    cls_names = {k[1] for k in cls_level}
    for fn in [f for f in ast.walk(tree) if isinstance(f, ast.FunctionDef)]:
        me = fn.args.args[0].arg if fn.args.args else None
        rebinds = set()
        for n in ast.walk(fn):
            if isinstance(n, ast.Assign):
                for t in n.targets:
                    if isinstance(t, ast.Attribute) and isinstance(t.value, ast.Name) and t.value.id == me and t.attr in cls_names:
                        rebinds.add(t.attr)
        for n in ast.walk(fn):
            cont = key = None
            if isinstance(n, ast.Assign) and len(n.targets) == 1 and isinstance(n.targets[0], ast.Subscript):
                cont, key = n.targets[0].value, n.targets[0].slice
            elif isinstance(n, ast.Call) and isinstance(n.func, ast.Attribute) and n.func.attr in ('add', 'append', 'setdefault', 'update', 'appendleft') and n.args:
                cont, key = n.func.value, n.args[0]
            if cont is None:
                continue
            cname = None
            if isinstance(cont, ast.Name) and cont.id in mod_level and cont.id not in {a.arg for a in fn.args.args}:
                shadow = any(isinstance(x, ast.Assign) and any(isinstance(t, ast.Name) and t.id == cont.id for t in x.targets) for x in ast.walk(fn))
                if not shadow:
                    cname = f"module-level {cont.id}"
            elif isinstance(cont, ast.Attribute) and cont.attr in cls_names:
                base = norm(cont.value)
                if (base == me and cont.attr not in rebinds) or base in {c.name for c in classes} or base.startswith('type(') or base.endswith('.__class__'):
                    cname = f"class-level {cont.attr}"
            if cname is None:
                continue
            if isinstance(key, ast.Name):
                rv = reaching_value(key.id, n)
                kexpr = rv if rv is not None else key
            else:
                kexpr = key
            bare = isinstance(kexpr, ast.Name) and kexpr.id in {a.arg for a in fn.args.args}
            if bare and not _name_only_key(kexpr):
                out.append((fn, cname, norm(kexpr), True, 'keyed by the object itself', n))
            elif _name_only_key(kexpr):
                out.append((fn, cname, norm(kexpr), False, f"keyed by a name only (`{norm(kexpr)[:60]}`): two different types with the same name "
                            f"share one entry", n))
            else:
                out.append((fn, cname, norm(kexpr), False, "lives as long as the process and is not keyed by the object it describes", n))
    return out


_MEMO_EXAMPLE = """
class Tr:
  _struct_nbits = {}
  def _get_struct_nbits( s, dtype ):
    name = dtype.get_class().__name__
    if name not in s._struct_nbits:
      s._struct_nbits[ name ] = dtype.get_length()
    return s._struct_nbits[ name ]
"""


def rule_memo_scope(repo, backend):
    r = RuleResult('R-tr-memo-scope', f"[{backend}] no class- or module-level container is used by the translator as a memo for emitted "
                                      f"text unless it is keyed by the described object itself (name-only keys alias different types; "
                                      f"process-lifetime state makes the output depend on earlier translations)")
    n = 0
    for rel in backend_files(backend) + [RUTIL, 'pymtl3/passes/rtlir/rtype/RTLIRDataType.py'][:1]:
        m = repo.mod(rel)
        n += 1
        fs = memo_scope_findings(m.tree)
        for fn, cname, ktxt, ok, why, node in fs:
            cons = f"{cname}[{ktxt[:60]}] written in {fn.name}"
            if ok:
                r.ok(m, qualname(fn), cons, note=why)
            else:
                r.bad(m, qualname(fn), cons, f"{cname} is written by translator code and {why}; what is emitted for one design then "
                      f"depends on which designs were translated before in the same process (e.g. a wider struct of the same name gets "
                      f"the narrower width)", node.lineno)
        if not fs:
            r.ok(m, '<module>', "no class- / module-level container is written by translator code", nontrivial=False)
    from .loader import _set_parents
    ex = ast.parse(_MEMO_EXAMPLE)
    _set_parents(ex)
    probe = memo_scope_findings(ex)
    if not probe or all(x[3] for x in probe):
        raise AnalysisError("R-tr-memo-scope: the embedded example of a class-level memo keyed by name was not flagged")
    r.evaluations = n
    r.require_floor(18 if backend == 'sv' else 28)
    return r


# ---------------------------------------------------------------------------
_IDENT = 'I' * 40


def _spec_truncates(spec):
    """does the format spec shorten a 40-character identifier?  None when the spec is not applicable to strings"""
    try:
        return _IDENT not in format(_IDENT, spec)
    except (ValueError, TypeError):
        return None


def rule_ident_intact(repo, backend):
    r = RuleResult('R-tr-ident-intact', f"[{backend}] identifiers inserted into the emitted text may be padded / aligned but are never "
                                        f"truncated (no precision in a format spec, no constant-length slice)")
    n = 0
    for rel in backend_files(backend):
        m = repo.mod(rel)
        for node in ast.walk(m.tree):
            if True:
                fn_ = enclosing(node, (ast.FunctionDef,))
                q = qualname(fn_) if fn_ is not None else '<module>'
                specs = []
                if isinstance(node, ast.FormattedValue) and node.format_spec is not None:
                    sp = ''.join(v.value for v in node.format_spec.values if isinstance(v, ast.Constant))
                    if all(isinstance(v, ast.Constant) for v in node.format_spec.values):
                        specs.append((sp, norm(node.value)))
                elif isinstance(node, ast.Constant) and isinstance(node.value, str) and '{' in node.value:
                    try:
                        for lit, fname, fspec, conv in string.Formatter().parse(node.value):
                            if fname is not None and fspec:
                                specs.append((fspec, fname))
                    except ValueError:
                        pass
                    for mm in re.finditer(r"%[-+ 0#]*\d*\.(\d+)s", node.value if isinstance(parent(node), ast.BinOp) and isinstance(parent(node).op, ast.Mod) else ''):
                        specs.append(('.' + mm.group(1), '%s'))
                for sp, what in specs:
                    t = _spec_truncates(sp)
                    if t is None:
                        continue
                    n += 1
                    cons = f"{{{what}:{sp}}}"
                    if t:
                        r.bad(m, q, cons, f"the format spec `{sp}` has a precision: an identifier longer than that is cut off, so the "
                              f"emitted text refers to a name that was never declared (e.g. a 40-character port wire)", node.lineno)
                    else:
                        r.ok(m, q, cons)
                if isinstance(node, ast.Subscript) and isinstance(node.slice, ast.Slice) and isinstance(node.slice.upper, ast.Constant) \
                        and isinstance(node.slice.upper.value, int) and node.slice.upper.value > 0 and node.slice.step is None:
                    # constant-length prefix of a value that ends up in a template
                    p_ = parent(node)
                    in_tmpl = isinstance(p_, ast.FormattedValue) or (isinstance(p_, (ast.keyword, ast.Call)) and any(
                        isinstance(x, ast.Attribute) and x.attr == 'format' for x in ast.walk(enclosing(node, (ast.Call,)) or node))) or \
                        (isinstance(p_, ast.BinOp) and isinstance(p_.op, ast.Add) and _stringy(p_))
                    if in_tmpl:
                        n += 1
                        r.bad(m, q, norm(node)[:80], "a constant-length prefix of a value is inserted into the emitted text: longer "
                              "identifiers are cut off", node.lineno)
    # embedded examples (the SystemVerilog back-end uses no format specs today)
    if _spec_truncates('^25.25') is not True or _spec_truncates(' <8') is not False or _spec_truncates('.3f') is not None:
        raise AnalysisError("R-tr-ident-intact: format-spec oracle broken")
    if n == 0:
        r.ok(repo.mod(backend_files(backend)[-1]), '<back-end>', "no format spec with padding / precision and no constant-length prefix in "
             "any template", nontrivial=False)
    r.evaluations = n
    r.require_floor(1 if backend == 'sv' else 8)
    return r


# ---------------------------------------------------------------------------
def rule_name_scope(repo, backend):
    r = RuleResult('R-tr-name-scope', f"[{backend}] a bare name in an update block is resolved like Python scoping does at the use "
                                      f"site: inside `for i in range(..)` the name i is the loop variable even if a temporary i "
                                      f"exists; otherwise a known temporary; an unknown name may only be stored to")
    lk = linker(repo)
    gen = generator_class(repo, backend)
    res = lk.find(gen, 'visit_Name')
    if res is None:
        raise AnalysisError("anchor vanished: visit_Name")
    c, f = res
    al = bir_aliases(repo, c.mod)
    ex, outs = sym_run(f)
    nev = 0
    mism = []
    for in_loop, in_tmp, is_load in itertools.product((True, False), repeat=3):
        leaves = {'node.id': 'i', 's.closure': {}, 's.globals': {}, 's.loop_var_env': {'i'} if in_loop else set(),
                  's.tmp_var_env': {'i'} if in_tmp else set(), 'isinstance(node.ctx, ast.Load)': is_load}
        live = []
        for o in outs:
            okp = True
            for t, p in o.conds:
                if p not in (True, False):
                    continue
                nev += 1
                v = tri(t, leaves)
                if v is None:
                    raise AnalysisError(f"{fq(c, f)}: condition outside the abstract domain: {norm(t)[:80]}")
                if v != p:
                    okp = False
                    break
            if okp:
                live.append(o)
        if len(live) != 1:
            raise AnalysisError(f"{fq(c, f)}: {len(live)} paths for a bare name (loop={in_loop}, tmp={in_tmp}, load={is_load})")
        o = live[0]
        if o.kind == 'raise':
            got = 'reject'
        elif o.kind == 'return' and isinstance(o.value, ast.Call) and attr_ref(o.value.func, al):
            got = attr_ref(o.value.func, al)
        else:
            got = norm(o.value)[:40] if o.value is not None else o.kind
        want = 'LoopVar' if in_loop else ('TmpVar' if in_tmp else ('reject' if is_load else 'TmpVar'))
        if got != want:
            mism.append((in_loop, in_tmp, is_load, got, want, o))
    cons = "visit_Name: loop variable > known temporary > (load: reject | store: new temporary)"
    if mism:
        in_loop, in_tmp, is_load, got, want, o = mism[0]
        r.bad(c.mod, fq(c, f), cons, f"a name that is {'the open loop variable' if in_loop else 'no loop variable'} and "
              f"{'a known temporary' if in_tmp else 'no temporary'} ({'load' if is_load else 'store'}) becomes {got}, expected {want}: "
              f"e.g. `i = s.a` followed by `for i in range(4): s.out[i] @= ...` indexes with the temporary instead of the loop index",
              o.node.lineno)
    else:
        r.ok(c.mod, fq(c, f), cons)
    # the loop variable is registered while (and only while) the loop body is visited
    res = lk.find(gen, 'visit_For')
    if res is None:
        raise AnalysisError("anchor vanished: generator visit_For")
    c2, f2 = res
    me = f2.args.args[0].arg
    adds = [n for n in walk_no_nested(f2) if isinstance(n, ast.Call) and norm(n.func) == f"{me}.loop_var_env.add"]
    rems = [n for n in walk_no_nested(f2) if isinstance(n, ast.Call) and norm(n.func) in (f"{me}.loop_var_env.remove", f"{me}.loop_var_env.discard")]
    # the body visit: a loop, a comprehension / generator or a map() over node.body that visits the elements
    def visits_body(n):
        if isinstance(n, ast.For):
            return 'body' in norm(n.iter) and any(isinstance(x, ast.Call) and norm(x.func).endswith('.visit') for x in ast.walk(n))
        if isinstance(n, (ast.ListComp, ast.GeneratorExp, ast.SetComp)):
            return any('body' in norm(g_.iter) for g_ in n.generators) and \
                any(isinstance(x, ast.Call) and norm(x.func).endswith('.visit') for x in ast.walk(n.elt))
        if isinstance(n, ast.Call) and norm(n.func) == 'map' and len(n.args) == 2:
            return norm(n.args[0]).endswith('.visit') and 'body' in norm(n.args[1])
        return False
    body_loops = sorted([n for n in walk_no_nested(f2) if visits_body(n)], key=lambda n: n.lineno)
    okf = len(adds) == 1 and len(rems) == 1 and body_loops and \
        all(adds[0].lineno < b_.lineno and getattr(b_, 'end_lineno', b_.lineno) < rems[0].lineno for b_ in body_loops)
    if okf:
        r.ok(c2.mod, fq(c2, f2), "loop_var_env.add(name) ; visit body ; loop_var_env.remove(name)")
    else:
        r.bad(c2.mod, fq(c2, f2), "loop_var_env add / remove around the body", "the loop variable must be registered before the loop "
              "body is visited and removed afterwards", f2.lineno)
    r.evaluations = nev
    r.require_floor(2)
    return r


# ---------------------------------------------------------------------------
def _unpacked_operands(e):
    """ordered `<base>['unpacked_type']` operands of a concatenation (a + b, f"{a}{b}", pretty_concat(.., a, b, ..))"""
    def is_up(x):
        return isinstance(x, ast.Subscript) and isinstance(x.slice, ast.Constant) and x.slice.value == 'unpacked_type'
    ops = []
    if isinstance(e, ast.BinOp) and isinstance(e.op, ast.Add):
        ops = [x for x in flatten_add(e) if is_up(x)]
    elif isinstance(e, ast.JoinedStr):
        ops = [v.value for v in e.values if isinstance(v, ast.FormattedValue) and is_up(v.value)]
    elif isinstance(e, ast.Call) and norm(e.func) == 'pretty_concat':
        ops = [x for x in e.args if is_up(x)]
    return ops


def rule_dims_order(repo, backend):
    r = RuleResult('R-tr-dims-order', f"[{backend}] the unpacked dimensions of a mangled interface / sub-component port are declared "
                                      f"outermost array first (component, interface, port), the order in which every access indexes "
                                      f"the name ([ifc][port])")
    lk = linker(repo)
    top = backend_class(repo, backend)
    n = 0
    for name, (c, f) in sorted(lk.effective_methods(top).items()):
        if not c.mod.rel.startswith(SV_DIR) or not name.startswith('rtlir_tr_'):
            continue
        for g in [f] + _nested_funcs(f):
            params = [a.arg for a in g.args.args]
            seen = set()
            for node in walk_no_nested(g):
                p_ = parent(node)
                if isinstance(node, ast.BinOp) and isinstance(p_, ast.BinOp) and isinstance(p_.op, ast.Add) and isinstance(node.op, ast.Add):
                    continue
                ops = _unpacked_operands(node) if isinstance(node, (ast.BinOp, ast.JoinedStr, ast.Call)) else []
                if len(ops) < 2 or id(node) in seen:
                    continue
                seen.add(id(node))
                n += 1
                ranks = []
                for x in ops:
                    b = x.value
                    # the array type handed to the hook for the entity itself is outer to anything read from the
                    # already translated inner declarations (loop variables / local records); several array-type
                    # parameters are outer-to-inner in signature order (component, interface, port)
                    ranks.append(params.index(b.id) if isinstance(b, ast.Name) and b.id in params else 10 ** 6)
                cons = f"{name}: {' , '.join(norm(x.value) for x in ops)}"
                if ranks != sorted(ranks):
                    r.bad(c.mod, fq(c, f), cons, f"unpacked dimensions are concatenated as [{'] ['.join(norm(x.value) for x in ops)}]: the "
                          f"dimensions of the inner declaration precede those of the enclosing array, but every access to the mangled "
                          f"name indexes the enclosing array first (e.g. ifc[2] with port[4] is declared [0:3][0:1] and used as "
                          f"name[i_ifc][i_port])", node.lineno)
                else:
                    r.ok(c.mod, fq(c, f), cons)
    # recursion into a nested interface: the declaration produced one nesting level deeper carries every dimension the level
    # above carries (enclosing interface array, then the nested interface's own array) followed by its own
    n_rec = 0
    record_hooks = set()
    for name, (c, f) in lk.effective_methods(top).items():
        rets = [x for x in walk_no_nested(f) if isinstance(x, ast.Return)]
        if name.startswith('rtlir_tr_') and rets and all(isinstance(x.value, ast.Dict) and any(isinstance(k_, ast.Constant) and k_.value == 'unpacked_type'
                                                                                               for k_ in x.value.keys) for x in rets):
            record_hooks.add(name)
    for name, (c, f) in sorted(lk.effective_methods(top).items()):
        if not c.mod.rel.startswith(SV_DIR) or not name.startswith('rtlir_tr_'):
            continue
        params = [a.arg for a in f.args.args]
        rec_calls = [x for x in walk_no_nested(f) if isinstance(x, ast.Call) and isinstance(x.func, ast.Attribute)
                     and x.func.attr == name and isinstance(x.func.value, ast.Name) and x.func.value.id == params[0]]
        aps = [p_ for p_ in params if any(isinstance(x, ast.Subscript) and isinstance(x.value, ast.Name) and x.value.id == p_
                                          and isinstance(x.slice, ast.Constant) and x.slice.value == 'unpacked_type' for x in ast.walk(f))]
        leafs = []
        for ret in [x for x in walk_no_nested(f) if isinstance(x, ast.Return) and x.value is not None]:
            for d in ast.walk(ret.value):
                if isinstance(d, ast.Dict):
                    for k_, v_ in zip(d.keys, d.values):
                        if isinstance(k_, ast.Constant) and k_.value == 'unpacked_type':
                            leafs.append(v_)
        if not rec_calls or not aps:
            continue
        assigned = {}
        for st in walk_no_nested(f):
            if isinstance(st, ast.Assign) and len(st.targets) == 1 and isinstance(st.targets[0], ast.Name):
                assigned.setdefault(st.targets[0].id, []).append(st.value)
        # what the recursion hands over for a parameter that is read as a translated array type (p['unpacked_type']) is a
        # translated array type too: a record built here, the parameter itself, or the result of a hook that returns such records
        for call in rec_calls:
            if call.keywords or any(isinstance(a, ast.Starred) for a in call.args) or len(call.args) != len(params) - 1:
                continue
            for p_, a in zip(params[1:], call.args):
                if p_ not in aps:
                    continue
                vals = assigned.get(a.id, [a]) if isinstance(a, ast.Name) and a.id not in params else [a]
                n += 1
                n_rec += 1
                raw = []
                for v_ in vals:
                    okv = (isinstance(v_, ast.Dict) or (isinstance(v_, ast.Constant) and v_.value is None and
                                                         any(isinstance(x, ast.Compare) and isinstance(x.left, ast.Name) and x.left.id == p_
                                                             and any(isinstance(o_, (ast.Is, ast.IsNot)) for o_ in x.ops) for x in ast.walk(f)))
                           or (isinstance(v_, ast.Name) and v_.id in aps)
                           or (isinstance(v_, ast.Call) and isinstance(v_.func, ast.Attribute) and v_.func.attr in record_hooks))
                    if not okv:
                        raw.append(v_)
                cons = f"{name}: recursion passes `{norm(a)[:50]}` for {p_}"
                if raw:
                    # can the callee consume the raw value without raising?  If every use of the parameter subscripts it, calls
                    # a dict method on it, tests it against None or hands it to the recursion again, an RTLIR type object
                    # raises before any text is produced: the design is refused, not mistranslated
                    consumable = []
                    for u in walk_no_nested(f):
                        if not (isinstance(u, ast.Name) and u.id == p_ and isinstance(u.ctx, ast.Load)):
                            continue
                        pu = parent(u)
                        if isinstance(pu, ast.Subscript) and pu.value is u:
                            continue
                        if isinstance(pu, ast.Attribute) and pu.value is u and pu.attr in ('get', 'items', 'keys', 'values', 'update',
                                                                                          'setdefault', 'pop', 'copy', '__getitem__'):
                            continue
                        if isinstance(pu, ast.Compare) and any(isinstance(o_, (ast.Is, ast.IsNot)) for o_ in pu.ops):
                            continue
                        if isinstance(pu, ast.Call) and pu in rec_calls and u in pu.args and params[1:][pu.args.index(u)] == p_:
                            continue
                        consumable.append(u)
                    if consumable:
                        r.bad(c.mod, fq(c, f), cons, f"{p_} is read as a translated array type ({p_}['unpacked_type']) but the recursion "
                              f"into a nested interface passes `{norm(raw[0])[:60]}`, which is not one (an RTLIR type object / "
                              f"untranslated value), and `{norm(parent(consumable[0]))[:60]}` consumes it without raising: the ports of "
                              f"an array inside a nested interface are declared with text derived from the wrong object", call.lineno)
                    else:
                        r.ok(c.mod, fq(c, f), cons, nontrivial=False, note="refusal, not a violation")
                        r.observations.append(f"{fq(c, f)}: the recursion into a nested interface passes `{norm(raw[0])[:40]}` (an "
                                              f"untranslated RTLIR type) for {p_}; every use of {p_} subscripts it, so an array of "
                                              f"ports inside a nested interface makes the translation raise TypeError before any text "
                                              f"is emitted -- the design is refused, not mistranslated "
                                              f"(triage/c03_nested_interface_port_array.py)")
                else:
                    r.ok(c.mod, fq(c, f), cons)
        if not leafs:
            continue
        once = {k_: v_[0] for k_, v_ in assigned.items() if len(v_) == 1 and k_ not in params}

        class Lvl(_Interp):
            def ev_Name(self, e):
                if e.id not in self.env and e.id in once and e.id not in getattr(self, '_busy', ()):
                    self._busy = set(getattr(self, '_busy', ())) | {e.id}
                    try:
                        return self.ev(once[e.id])
                    finally:
                        self._busy.discard(e.id)
                return super().ev_Name(e)

        def rec(tok, k_):
            return {'unpacked_type': tok, 'n_dim': [k_], 'def': ''}
        env0 = {p_: rec(f"<{p_}>", i + 2) for i, p_ in enumerate(aps)}
        for call in rec_calls:
            if call.keywords or any(isinstance(a, ast.Starred) for a in call.args) or len(call.args) != len(params) - 1:
                continue
            env1, fresh = {}, []
            for p_, a in zip(params[1:], call.args):
                if p_ not in aps:
                    continue
                try:
                    v_ = Lvl({}, env0).ev(a)
                    if not (isinstance(v_, dict) and isinstance(v_.get('unpacked_type'), str)):
                        raise AnalysisError("not an array-type record")
                    env1[p_] = v_
                except (AnalysisError, Raised, TypeError, KeyError, IndexError):
                    env1[p_] = rec("<new>", 9)
                    fresh.append(p_)
            if len(fresh) != 1:
                continue
            for leaf in leafs:
                try:
                    s0 = Lvl({}, env0).ev(leaf)
                    s1 = Lvl({}, env1).ev(leaf)
                except (AnalysisError, Raised, TypeError, KeyError, IndexError):
                    continue
                if not isinstance(s0, str) or not isinstance(s1, str):
                    continue
                n += 1
                n_rec += 1
                # the level-0 text ends with the dimensions of the entity that is the nested interface one level deeper
                want = s0 + "<new>"
                cons = f"{name}: nested interface, recursion passes ({', '.join(norm(a)[:40] for p_, a in zip(params[1:], call.args) if p_ in aps)})"
                if s1 == want:
                    r.ok(c.mod, fq(c, f), cons)
                else:
                    r.bad(c.mod, fq(c, f), cons, f"a port of this level is declared with the dimensions {s0}; a port <new> of the "
                          f"interface nested one level deeper is declared with {s1 or 'none'} instead of {want}: a dimension of an "
                          f"enclosing interface array is lost (or misplaced) in the recursion, so the parent declares e.g. "
                          f"st__bus__lane__msg without the [0:1] of the lane array and still indexes it", call.lineno)
    if n_rec == 0:
        raise AnalysisError("R-tr-dims-order: the recursion of the sub-component interface port declaration into nested interfaces was not found")
    # structural accesses: a signal expression is translated from the component outwards, so the array indices of
    # s.pe[r][c].in_ / s.pe[r].ifc[c].msg reach the producers in source order (r, then c); whatever end the producers push at,
    # the consumer must emit the pending indices in that order: name[r][c]
    import collections
    qattrs = set()
    for cc in lk.mro(top):
        for init in cc.methods().values():
            for st in ast.walk(init):
                if isinstance(st, ast.Assign) and isinstance(st.value, ast.Call) and norm(st.value.func) in ('deque', 'collections.deque') \
                        and not st.value.args:
                    qattrs |= {t.attr for t in st.targets if isinstance(t, ast.Attribute) and isinstance(t.value, ast.Name)}
    producers, consumers = [], []
    for cc in lk.mro(top):
        if not cc.mod.rel.startswith(SV_DIR):
            continue
        for mname, mf in sorted(cc.methods().items()):
            if lk.find(top, mname) != (cc, mf) and (lk.find(top, mname) or (None, None))[1] is not mf:
                continue
            for x in walk_no_nested(mf):
                if isinstance(x, ast.Call) and isinstance(x.func, ast.Attribute) and isinstance(x.func.value, ast.Attribute) \
                        and x.func.value.attr in qattrs and x.func.attr in ('append', 'appendleft') and len(x.args) == 1:
                    producers.append((cc, mf, x, x.func.value.attr))
                if isinstance(x, (ast.ListComp, ast.GeneratorExp)) and any(isinstance(y, ast.Attribute) and y.attr in qattrs
                                                                           for g_ in x.generators for y in ast.walk(g_.iter)):
                    qa = [y for g_ in x.generators for y in ast.walk(g_.iter) if isinstance(y, ast.Attribute) and y.attr in qattrs][0]
                    consumers.append((cc, mf, x, qa))
    if qattrs and (not producers or not consumers):
        raise AnalysisError("R-tr-dims-order: producers / consumer of the pending index queue of the structural translator not found")
    for (c1, f1, x1, a1), (c2, f2, x2, a2) in itertools.product(producers, producers):
        if a1 != a2:
            continue
        for cc, cf, comp, qa in consumers:
            if qa.attr != a1:
                continue
            q_ = collections.deque()
            for x_, tok in ((x1, 'r'), (x2, 'c')):
                getattr(q_, x_.func.attr)(tok)
            n += 1
            try:
                out_ = _Interp({norm(qa): q_}, {}).ev(comp)
            except (AnalysisError, Raised, TypeError, KeyError, IndexError) as e:
                raise AnalysisError(f"{fq(cc, cf)}: the emission of the pending indices is outside the abstract domain: {norm(comp)[:60]}")
            txt = ''.join(str(t) for t in out_)
            cons = f"s.X[r]..[c]: indices queued by {f1.name} then {f2.name}, emitted by {cf.name}"
            if 'r' in txt and 'c' in txt and txt.index('r') < txt.index('c'):
                if f1 is f2 or True:
                    r.ok(c2.mod, fq(c2, f2), cons, nontrivial=f1 is f2)
            else:
                r.bad(c2.mod, fq(c2, f2), cons, f"the access X[r]...[c] is emitted with the indices as `{txt}`: the producers push at "
                      f"{'different ends' if x1.func.attr != x2.func.attr else 'the end the consumer reads last'}, so s.pe[r][c].in_ "
                      f"is emitted as pe__in_[c][r] (the element of another instance for a non-square or asymmetric access)", x2.lineno)
    # the accesses: pending (interface / component) indices are emitted before the port's own index
    vis = tov_visitor(repo, 'sv')
    for cc, ff in lk.all_defs(vis, 'visit_Index'):
        for node in ast.walk(ff):
            if isinstance(node, ast.JoinedStr):
                vs = to_variants(node)
                if len(vs) == 1 and vs[0].skeleton() == '⟨0⟩{}[⟨1⟩]':
                    n += 1
                    r.ok(cc.mod, fq(cc, ff), "access template <name>{pending indices}[own index]", nontrivial=False)
    r.evaluations = n
    r.require_floor(13)
    return r


# ---------------------------------------------------------------------------
def rule_const_inline(repo, backend):
    r = RuleResult('R-tr-const-inline', f"[{backend}] a back-end that declares no constants inlines every constant-array element as a "
                                        f"literal or refuses the design; no path emits a reference to the undeclared array")
    lk = linker(repo)
    top = backend_class(repo, backend)
    c, f = lk.find(top, 'rtlir_tr_const_decl')
    rets = [x for x in walk_no_nested(f) if isinstance(x, ast.Return)]
    declares = not (rets and all(isinstance(x.value, ast.Constant) and x.value.value == '' for x in rets))
    if declares:
        r.ok(c.mod, fq(c, f), "constants are declared (localparam): references by name are defined", nontrivial=False)
        r.require_floor(1)
        return r
    r.ok(c.mod, fq(c, f), "rtlir_tr_const_decl emits nothing: constants must be inlined")
    vis = tov_visitor(repo, backend)

    def assume(e):
        t = norm(e)
        if re.fullmatch(r"isinstance\(node\.value\.Type, \w+\.Array\)", t):
            return True
        if re.fullmatch(r"isinstance\(node\.value\.Type\.get_sub_type\(\), \w+\.Const\)", t):
            return True
        return None
    n = 0
    for cc, ff, o in emissions(lk, vis, 'visit_Index'):
        if not possible(o.conds, {}, assume):
            continue
        n += 1
        conds_txt = [(norm(t)[:60], p) for t, p in o.conds][-3:]
        cons = f"visit_Index on a constant array, path {conds_txt}"
        if o.kind == 'raise':
            r.ok(cc.mod, fq(cc, ff), cons + " -> rejected", nontrivial=False)
            continue
        lit = [val for t, op, val, cs in o.stores if op is None and norm(t) == "node.sexpr['s_index']"
               and any(sized_width(v) is not None for v in to_variants(val))]
        appended = [val for t, op, val, cs in o.stores if op is not None and "['s_index']" in norm(t)]
        if lit and not appended:
            r.ok(cc.mod, fq(cc, ff), cons + " -> literal")
        else:
            r.bad(cc.mod, fq(cc, ff), cons, "on this path an index into a list of constants is emitted as NAME[idx]; the back-end "
                  "never declares NAME (constants are inlined), so e.g. a signal-valued index into a constant table refers to an "
                  "undeclared identifier instead of being rejected", o.node.lineno)
    r.evaluations = n
    r.require_floor(3)
    return r


# ---------------------------------------------------------------------------
_DT_KINDS = ('Vector', 'Struct', 'PackedArray')


def _dispatchers(funcs_by_name):
    """functions that branch on isinstance(<dtype>, rdt.Vector|Struct|PackedArray) and hand each kind to another function
    of the same scope: name -> {kind: callee name}"""
    out = {}
    for name, fn in funcs_by_name.items():
        table = {}
        for iff in [x for x in walk_no_nested(fn) if isinstance(x, ast.If)]:
            t = iff.test
            if isinstance(t, ast.Call) and norm(t.func) == 'isinstance' and len(t.args) == 2 and isinstance(t.args[1], ast.Attribute) \
                    and t.args[1].attr in _DT_KINDS:
                callees = [_callee_name(x) for st in iff.body for x in ast.walk(st) if isinstance(x, ast.Call)
                           and _callee_name(x) in funcs_by_name]
                if callees:
                    table[t.args[1].attr] = callees[0]
        if len(table) >= 2 and ('Struct' in table or 'PackedArray' in table):
            out[name] = table
    return out


def rule_dispatch(repo):
    r = RuleResult('R-C12-dispatch', "the flattening recursions (port, wire, connection generators and the port-map helper) are the "
                                     "same recursion over vector | struct | packed array: a struct field and an array element are "
                                     "handed back to the family's type dispatcher, never straight to the generator of one kind")
    lk = linker(repo)
    top = backend_class(repo, 'yosys')
    scopes = []
    # methods of the Yosys structural translator (effective definitions), with their nested helpers
    meths = {}
    for name, (c, f) in lk.effective_methods(top).items():
        if c.mod.rel.startswith(YS_DIR):
            meths[name] = f
            for g in _nested_funcs(f):
                meths[g.name + '@' + name] = g
    scopes.append((repo.mod(YS_S[2]), 'YosysStructuralTranslator', meths))
    um = repo.mod(YS_UTIL)
    gm = um.functions.get('gen_mapped_ports')
    if gm is None:
        raise AnalysisError("anchor vanished: gen_mapped_ports")
    scopes.append((um, 'gen_mapped_ports', {g.name: g for g in _nested_funcs(gm)}))
    n = 0
    for mod_, where, funcs in scopes:
        plain = {k: v for k, v in funcs.items() if '@' not in k}
        disp = _dispatchers(plain)
        # a nested helper shadows a method of the same name inside its owner
        nested_of = {}
        for k, v in funcs.items():
            if '@' in k:
                nested_of.setdefault(k.split('@')[1], {})[k.split('@')[0]] = v
        # literal builders that dispatch to themselves (struct instances) are judged by R-layout-agree, not here
        selfish = {d for d, t in disp.items() if d in t.values()}
        selfish |= {d for d, t in disp.items() if set(t.values()) & selfish or any(d in disp[x].values() for x in selfish)}
        for dname, table in sorted(disp.items()):
            if dname in selfish:
                continue
            family = set(table.values())
            for kind in ('Struct', 'PackedArray'):
                if kind not in table:
                    continue
                # the generator of this kind and the local helpers it hands the work to
                chain, todo = [], [table[kind]]
                while todo:
                    x = todo.pop()
                    if x in chain or x not in plain or x == dname:
                        continue
                    chain.append(x)
                    for call in [y for y in walk_no_nested(plain[x]) if isinstance(y, ast.Call)]:
                        cn = _callee_name(call)
                        if cn in plain and cn not in family and cn != dname and cn not in disp and cn not in nested_of.get(x, {}):
                            todo.append(cn)
                n += 1
                calls = []
                for x in chain:
                    bodies = [plain[x]] + list(nested_of.get(x, {}).values())
                    local = set(nested_of.get(x, {}))
                    for b_ in bodies:
                        for y in walk_no_nested(b_):
                            if isinstance(y, ast.Call):
                                cn = _callee_name(y)
                                if isinstance(y.func, ast.Name) and cn in local:
                                    continue          # recursion into the owner's own helper
                                calls.append((x, cn, y))
                bypass = [(x, cn, y) for x, cn, y in calls if cn in family and cn not in chain]
                back = [1 for x, cn, y in calls if cn == dname]
                cons = f"{where}.{dname}: {kind} -> {' -> '.join(chain)}"
                if bypass:
                    x, cn, y = bypass[0]
                    r.bad(mod_, f"{where}.{x}" if where != 'YosysStructuralTranslator' else x, cons,
                          f"{x} hands the {'field' if kind == 'Struct' else 'element'} straight to {cn} instead of back to the dispatcher "
                          f"{dname}: a {'struct' if cn.endswith('vector') or 'vector' in cn else 'nested'} "
                          f"{'element of a packed array' if kind == 'PackedArray' else 'field'} is treated as one flat vector, so this "
                          f"generator lists other flat ports than its siblings (e.g. the port map vs the emitted module header)", y.lineno)
                elif not back:
                    r.bad(mod_, where, cons, f"the {kind} generator never returns to the dispatcher {dname}: nested types are not flattened",
                          plain[chain[0]].lineno)
                else:
                    r.ok(mod_, where, cons)
    r.evaluations = n
    r.require_floor(8)
    return r


# ---------------------------------------------------------------------------
def rule_ifc_source(repo, backend):
    r = RuleResult('R-tr-ifc-source', f"[{backend}] every generator that flattens an interface iterates the accessor that includes "
                                      f"nested interfaces (get_all_properties_packed), like all its siblings (declaration, connection "
                                      f"and port-map generators of the generic, SV and Yosys translators)")
    tm = repo.mod(RTYPE)
    ifc_m = tm.methods('InterfaceView')
    comp_m = tm.methods('Component')
    port_only = set()
    for name, f in ifc_m.items():
        if not name.startswith('get_') or name in comp_m:
            continue
        txt = norm(f.body)
        if re.search(r"isinstance\([^)]*Port\)|\.direction\b", txt):
            port_only.add(name)
    full = ifc_m.get('get_all_properties_packed')
    if full is None or not port_only:
        raise AnalysisError("anchor vanished: InterfaceView accessors")
    if re.search(r"isinstance\([^)]*Port\)", norm(full.body)):
        r.bad(tm, 'InterfaceView.get_all_properties_packed', 'get_all_properties_packed', "the accessor used by every interface "
              "flattener filters out nested interfaces", full.lineno)
    n = 0
    files = backend_files(backend) + ([] if backend == 'yosys' else [])
    for rel in files:
        m = repo.mod(rel)
        for node in ast.walk(m.tree):
            if not (isinstance(node, ast.Call) and isinstance(node.func, ast.Attribute) and not node.args):
                continue
            a = node.func.attr
            fn_ = enclosing(node, (ast.FunctionDef,))
            q = qualname(fn_) if fn_ is not None else '<module>'
            if a == 'get_all_properties_packed':
                n += 1
                r.ok(m, q, f"{norm(node)[:70]}")
            elif a in port_only:
                n += 1
                r.bad(m, q, norm(node)[:70], f"this flattener iterates `{a}()`, which returns the ports of the interface only: an "
                      f"interface nested in it is neither declared nor connected (its sibling generators use "
                      f"get_all_properties_packed(), so e.g. the port map / the child's module header still list the nested ports)",
                      node.lineno)
    r.evaluations = n
    r.require_floor(5 if backend == 'sv' else 7)
    return r


# ---------------------------------------------------------------------------
def rule_range_args(repo, backend):
    r = RuleResult('R-tr-range', f"[{backend}] `for i in range(..)` is read as range(end) -> (0, end, 1), range(start, end) -> "
                                 f"(start, end, 1), range(start, end, step) -> (start, end, step)")
    lk = linker(repo)
    gen = generator_class(repo, backend)
    res = lk.find(gen, 'visit_For')
    if res is None:
        raise AnalysisError("anchor vanished: generator visit_For")
    c, f = res
    al = bir_aliases(repo, c.mod)
    nodes, _ = bir_classes(repo)
    flds = nodes.get('For')
    if not flds or not {'start', 'end', 'step'} <= set(flds):
        raise AnalysisError("anchor vanished: bir.For fields")
    ex, outs = sym_run(f)
    nev = 0
    for k in (1, 2, 3):
        live = []
        for o in outs:
            if o.kind != 'return' or o.value is None:
                continue
            lv = {'len(node.iter.args)': k, 'node.orelse': [], "node.iter.func.id": 'range', 'loop_var_name': 'i'}
            okp = True
            for t, p in o.conds:
                if p not in (True, False):
                    continue
                v = tri(t, lv)
                nev += 1
                if v is not None and v != p:
                    okp = False
                    break
            if okp:
                live.append(o)
        cons = f"range with {k} argument(s)"
        if len(live) != 1:
            raise AnalysisError(f"{fq(c, f)}: {len(live)} paths for a range() with {k} argument(s)")
        v = live[0].value
        if not (isinstance(v, ast.Call) and attr_ref(v.func, al) == 'For' and len(v.args) == len(flds)):
            r.bad(c.mod, fq(c, f), cons, "visit_For does not build bir.For(var, start, end, step, body)", live[0].node.lineno)
            continue
        got = {fl: v.args[i] for i, fl in enumerate(flds)}

        def show(e):
            if isinstance(e, ast.Call) and attr_ref(e.func, al) == 'Number' and len(e.args) == 1:
                return f"Number({norm(e.args[0])})"
            return norm(e)
        arg = lambda i: f"s.visit(node.iter.args[{i}])"
        want = {1: ('Number(0)', arg(0), 'Number(1)'), 2: (arg(0), arg(1), 'Number(1)'), 3: (arg(0), arg(1), arg(2))}[k]
        have = (show(got['start']), show(got['end']), show(got['step']))
        if have != want:
            r.bad(c.mod, fq(c, f), f"{cons} -> (start, end, step) = {have}", f"expected {want}: e.g. range(2, 6) is translated (and type "
                  f"checked) as a loop from {have[0]} instead of from its first argument", live[0].node.lineno)
        else:
            r.ok(c.mod, fq(c, f), f"{cons} -> {have}")
    r.evaluations = nev
    r.require_floor(3)
    return r


# ---------------------------------------------------------------------------
def per_block_state_findings(cls, enter):
    """containers of the visitor that enter() fills must be created afresh by enter() itself"""
    me = enter.args.args[0].arg
    out = []
    fills = {}
    for n in walk_no_nested(enter):
        attr = None
        if isinstance(n, ast.Assign) and len(n.targets) == 1 and isinstance(n.targets[0], ast.Subscript):
            t = n.targets[0].value
            if isinstance(t, ast.Attribute) and isinstance(t.value, ast.Name) and t.value.id == me:
                attr = t.attr
        elif isinstance(n, ast.Call) and isinstance(n.func, ast.Attribute) and n.func.attr in ('add', 'update', 'append', 'setdefault') \
                and isinstance(n.func.value, ast.Attribute) and isinstance(n.func.value.value, ast.Name) and n.func.value.value.id == me:
            attr = n.func.value.attr
        if attr:
            fills.setdefault(attr, n)
    for attr, first in sorted(fills.items()):
        fresh = [n for n in walk_no_nested(enter) if isinstance(n, ast.Assign) and any(norm(t) == f"{me}.{attr}" for t in n.targets)
                 and _is_fresh_container(n.value) and not [g for g in guards_of(n) if g.kind in ('if', 'loop', 'except')]
                 and n.lineno < first.lineno]
        out.append((attr, bool(fresh), first))
    return out


_ENTER_EXAMPLE = """
class Gen:
  def __init__( s, component ):
    s.closure = {}
  def enter( s, blk, ast ):
    s.blk = blk
    for i, var in enumerate( blk.__code__.co_freevars ):
      s.closure[ var ] = blk.__closure__[ i ].cell_contents
    return s.visit( ast )
"""


def rule_block_state(repo, backend):
    r = RuleResult('R-tr-block-state', f"[{backend}] what a per-block visitor collects about one update block (its closure variables) "
                                       f"is created afresh when that block is entered, so nothing of an earlier block stays visible")
    lk = linker(repo)
    n = 0
    for what, cls in (('RTLIR generator', generator_class(repo, backend)), ('emitter', tov_visitor(repo, backend)),
                      ('type checker', typecheck_visitor(repo, backend))):
        res = lk.find(cls, 'enter')
        if res is None:
            raise AnalysisError(f"anchor vanished: {cls.name}.enter")
        c, f = res
        fs = per_block_state_findings(c, f)
        for attr, ok, node in fs:
            n += 1
            cons = f"{what}: enter() fills s.{attr}"
            if ok:
                r.ok(c.mod, fq(c, f), cons + " after creating it afresh")
            else:
                r.bad(c.mod, fq(c, f), cons, f"enter() adds the entered block's entries to s.{attr} without creating the container "
                      f"afresh: free variables of a block entered earlier stay visible, so in a later block a name that should "
                      f"resolve to a module-level global (or be rejected) resolves to the other block's closure value", node.lineno)
    from .loader import _set_parents
    ex = ast.parse(_ENTER_EXAMPLE)
    _set_parents(ex)
    probe = per_block_state_findings(None, ex.body[0].body[1])
    if not probe or all(ok for _, ok, _ in probe):
        raise AnalysisError("R-tr-block-state: the embedded example (closure created in __init__, filled in enter) was not flagged")
    r.evaluations = n
    r.require_floor(3)
    return r


# ===========================================================================
# concrete interpretation of small helpers on abstract objects
# ===========================================================================
class AObjAttributeError(AnalysisError):
    """the analysed code reads an attribute the abstract object does not have (python: AttributeError)"""


class AObj:
    """an abstract object: `kind` answers isinstance, `members` holds attribute values; a callable member is a method"""
    def __init__(self, kind, **members):
        self.kind, self.members = kind, members

    def __repr__(self):
        return f"<{self.kind}>"


def _type_names(e):
    xs = e.elts if isinstance(e, (ast.Tuple, ast.List)) else [e]
    out = []
    for x in xs:
        if isinstance(x, ast.Attribute):
            out.append(x.attr)
        elif isinstance(x, ast.Name):
            out.append(x.id)
        else:
            raise AnalysisError(f"type outside the abstract domain: {norm(x)}")
    return out


_PY_TYPES = {'int': int, 'str': str, 'list': list, 'tuple': tuple, 'dict': dict, 'bool': bool}


class _Interp(_Ev):
    """expressions and straight-line / if / loop statements evaluated on concrete python values and AObj objects.
    `resolve(interp, call)` may return (fdef, env) for a call of another function of the analysed code"""
    MAX_STEPS = 4000

    def __init__(self, leaves=None, env=None, resolve=None, depth=0, funcs=None):
        super().__init__(leaves or {}, funcs)
        self.env = dict(env or {})
        self.resolve, self.depth, self.steps = resolve, depth, 0

    def ev_Attribute(self, e):
        key = norm(e)
        if key in self.leaves:
            return self.leaves[key]
        base = self.ev(e.value)
        if isinstance(base, AObj):
            if e.attr in base.members and not callable(base.members[e.attr]):
                return base.members[e.attr]
            raise AObjAttributeError(f"attribute outside the abstract object {base}: {e.attr}")
        raise AnalysisError(f"attribute outside the abstract domain: {key}")

    def ev_List(self, e):
        return [self.ev(x) for x in e.elts]

    def ev_Dict(self, e):
        return {self.ev(k): self.ev(v) for k, v in zip(e.keys, e.values)}

    def ev_Subscript(self, e):
        v = self.ev(e.value)
        if isinstance(e.slice, ast.Slice):
            lo = None if e.slice.lower is None else self.ev(e.slice.lower)
            hi = None if e.slice.upper is None else self.ev(e.slice.upper)
            st = None if e.slice.step is None else self.ev(e.slice.step)
            return v[lo:hi:st]
        return v[self.ev(e.slice)]

    def _comp(self, elt, gens, out):
        if not gens:
            out.append(self.ev(elt))
            return
        g = gens[0]
        for item in list(self.ev(g.iter)):
            self._bind(g.target, item)
            if all(self.ev(c) for c in g.ifs):
                self._comp(elt, gens[1:], out)

    def ev_ListComp(self, e):
        saved = dict(self.env)
        out = []
        self._comp(e.elt, e.generators, out)
        self.env = saved
        return out

    ev_GeneratorExp = ev_ListComp

    def ev_Call(self, e):
        name = norm(e.func)
        if not e.keywords:
            if name in ('all', 'any', 'sum', 'list', 'tuple', 'len', 'sorted', 'reversed', 'set', 'max', 'min') and len(e.args) == 1:
                v = self.ev(e.args[0])
                f = {'all': all, 'any': any, 'sum': sum, 'list': list, 'tuple': tuple, 'len': len, 'sorted': sorted,
                     'reversed': lambda x: list(reversed(x)), 'set': set, 'max': max, 'min': min}[name]
                return f(v)
            if name in ('zip', 'range', 'enumerate'):
                vals = [self.ev(a) for a in e.args]
                return list({'zip': zip, 'range': range, 'enumerate': enumerate}[name](*vals))
            if name == 'isinstance' and len(e.args) == 2:
                v = self.ev(e.args[0])
                names = _type_names(e.args[1])
                if isinstance(v, AObj):
                    return v.kind in names
                if all(n in _PY_TYPES for n in names):
                    return isinstance(v, tuple(_PY_TYPES[n] for n in names))
                return False
            if isinstance(e.func, ast.Attribute) and name not in self.leaves:
                try:
                    base = self.ev(e.func.value)
                except AnalysisError:
                    base = None
                if isinstance(base, AObj) and e.func.attr in base.members and callable(base.members[e.func.attr]):
                    return base.members[e.func.attr](*[self.ev(a) for a in e.args])
                if isinstance(base, str) and e.func.attr in ('startswith', 'endswith', 'join', 'replace', 'strip', 'lstrip', 'rstrip',
                                                             'lower', 'upper', 'split'):
                    return getattr(base, e.func.attr)(*[self.ev(a) for a in e.args])
                if isinstance(base, list) and e.func.attr in ('append', 'extend') and len(e.args) == 1:
                    getattr(base, e.func.attr)(self.ev(e.args[0]))
                    return None
                if isinstance(base, dict) and e.func.attr in ('items', 'keys', 'values', 'get'):
                    return getattr(base, e.func.attr)(*[self.ev(a) for a in e.args]) if e.func.attr == 'get' else list(getattr(base, e.func.attr)())
        if self.resolve is not None and self.depth < 4:
            res = self.resolve(self, e)
            if res is not None:
                fdef, env = res
                sub = type(self)(self.leaves, env, self.resolve, self.depth + 1, self.funcs)
                try:
                    sub.run(fdef.body)
                except _HelperReturn as r_:
                    return r_.value
                return None
        return super().ev_Call(e)

    run = _StmtEv.run

    def _bind(self, target, val):
        if isinstance(target, ast.Name):
            self.env[target.id] = val
        elif isinstance(target, (ast.Tuple, ast.List)) and isinstance(val, (tuple, list)) and len(val) == len(target.elts):
            for t, v in zip(target.elts, val):
                self._bind(t, v)
        else:
            raise AnalysisError(f"assignment target outside the abstract domain: {norm(target)}")

    @property
    def bound(self):
        return self.env


def _method_resolver(mod, clsname):
    """calls `<obj>.name(args)` / `name(args)` of methods of one class (and its bases in the same module) on AObj receivers"""
    def find(name, seen=()):
        todo = [clsname]
        while todo:
            cn = todo.pop(0)
            if cn in seen or cn not in mod.classes:
                continue
            ms = mod.methods(cn)
            if name in ms:
                return ms[name]
            todo.extend(b.id for b in mod.classes[cn].bases if isinstance(b, ast.Name))
        return None

    def resolve(interp, call):
        if not isinstance(call.func, ast.Attribute):
            return None
        try:
            recv = interp.ev(call.func.value)
        except AnalysisError:
            return None
        if not isinstance(recv, AObj) or recv.kind != clsname or call.func.attr in recv.members:
            return None
        f = find(call.func.attr)
        if f is None or call.keywords or len(call.args) != len(f.args.args) - 1:
            return None
        env = {f.args.args[0].arg: recv}
        for a, x in zip(f.args.args[1:], call.args):
            env[a.arg] = interp.ev(x)
        return f, env
    return resolve


def _eq_verdict(mod, clsname, a, b):
    eq = mod.methods(clsname).get('__eq__')
    if eq is None:
        raise AnalysisError(f"anchor vanished: {clsname}.__eq__")
    ps = [x.arg for x in eq.args.args]
    it = _Interp({}, {ps[0]: a, ps[1]: b}, _method_resolver(mod, clsname))
    try:
        it.run(eq.body)
    except _HelperReturn as r_:
        return bool(r_.value)
    return None


def rule_rtype_eq(repo, backend):
    r = RuleResult('R-tr-rtype-eq', f"[{backend}] the elements of an array share ONE declaration taken from element 0, and "
                   f"_handle_Array admits an array when the RTLIR types of its elements compare equal: equality of the RTLIR types "
                   f"must hold only for elements that are declared identically (same port list / data type / direction / dimensions)")
    m = repo.mod(RTYPE)
    n = 0
    T8, T16 = AObj('Vector', nbits=8), 'Vector16'
    pa, pa16, pb, pc = ('a', 'Port8in'), ('a', 'Port16in'), ('b', 'Port8in'), ('c', 'Port8out')

    def comp(ports):
        return AObj('Component', get_ports_packed=lambda: list(ports), name='C', params=[])

    cases = [("identical port lists", [pa, pb], [pa, pb], True),
             ("one port of another width", [pa, pb], [pa16, pb], False),
             ("same number of ports, another name", [pa, pb], [pa, pc], False),
             ("the other component has one port more", [pa], [pa, pb], False),
             ("the other component has one port less", [pa, pb], [pa], False),
             ("no ports at all", [], [], True)]
    f = m.methods('Component').get('__eq__') if 'Component' in m.classes else None
    if f is None:
        raise AnalysisError("anchor vanished: RTLIRType.Component.__eq__")
    bad = None
    for what, u, v, want in cases:
        n += 1
        try:
            got = _eq_verdict(m, 'Component', comp(u), comp(v))
        except (Raised, TypeError, ValueError, KeyError, IndexError) as e:
            raise AnalysisError(f"Component.__eq__ outside the abstract domain: {type(e).__name__}")
        if got is not want and bad is None:
            bad = (what, u, v, got, want)
    cons = "Component == Component over port lists (equal / width / name / longer / shorter / empty)"
    if bad:
        what, u, v, got, want = bad
        r.bad(m, 'Component.__eq__', cons, f"{what}: components with ports {[p[0] + ':' + p[1] for p in u]} and "
              f"{[p[0] + ':' + p[1] for p in v]} compare {'equal' if got else 'unequal'}, they are declared "
              f"{'identically' if want else 'differently'}: a list like [Reg(8), Reg(16)] is admitted as an array of components and "
              f"every element's ports get the wires of element 0", f.lineno)
    else:
        r.ok(m, 'Component.__eq__', cons)
    n += 1
    try:
        got = _eq_verdict(m, 'Component', comp([pa]), AObj('Port', dtype='Vector8', direction='input'))
    except (Raised, TypeError, ValueError, KeyError, IndexError, AnalysisError):
        got = None
    if got is False:
        r.ok(m, 'Component.__eq__', "Component == Port")
    else:
        r.bad(m, 'Component.__eq__', "Component == Port", "a component compares equal to an object of another RTLIR type (or the "
              "comparison is not decided)", f.lineno)
    # admission of a list as an array: RTLIRGetter._handle_Array declares the array with the type of element 0, so it must refuse
    # a list in which ANY element has another type (lists of 1..4 elements, the odd element at every position)
    if 'RTLIRGetter' not in m.classes or '_handle_Array' not in m.methods('RTLIRGetter'):
        raise AnalysisError("anchor vanished: RTLIRType.RTLIRGetter._handle_Array")
    fa = m.methods('RTLIRGetter')['_handle_Array']
    pa_ = [x.arg for x in fa.args.args]
    wrong = []
    for size in (1, 2, 3, 4):
        for odd in [None] + list(range(size)):
            elems = [AObj('Elem', t='Port16in' if i == odd else 'Port8in') for i in range(size)]
            if size == 1 and odd == 0:
                continue
            getter = AObj('RTLIRGetter', get_rtlir=lambda x: x.members['t'] if isinstance(x, AObj) else ('Array', x))
            it = _Interp({}, {pa_[0]: getter, pa_[1]: 'x', pa_[2]: list(elems)}, _method_resolver(m, 'RTLIRGetter'),
                         funcs={'Array': lambda *a: ('Array',) + a, 'repr': repr})
            n += 1
            try:
                it.run(fa.body)
                verdict = 'admitted'
            except _HelperReturn as r_:
                verdict = 'admitted' if r_.value is not None else 'dropped'
            except Raised as r_:
                verdict = 'refused'
            except (TypeError, ValueError, KeyError, IndexError) as e:
                raise AnalysisError(f"_handle_Array outside the abstract domain: {type(e).__name__}")
            want = 'admitted' if odd is None else 'refused'
            if verdict != want:
                wrong.append((size, odd, verdict))
    cons = "_handle_Array: a list is an array iff all elements have the type of element 0 (1..4 elements, odd one at every position)"
    if wrong:
        size, odd, verdict = wrong[0]
        r.bad(m, 'RTLIRGetter._handle_Array', cons, f"a list of {size} elements whose element {odd} has another type is {verdict} "
              f"({len(wrong)} of 13 cases wrong): e.g. [InPort(8), InPort(8), InPort(16)] is declared `logic [7:0] in_ [0:2]` with the "
              f"type of element 0" if odd is not None else f"a homogeneous list of {size} elements is {verdict}", fa.lineno)
    else:
        r.ok(m, 'RTLIRGetter._handle_Array', cons)
    # interface views: the ports of an interface array are declared once, from element 0
    if 'InterfaceView' not in m.classes or '__eq__' not in m.methods('InterfaceView'):
        raise AnalysisError("anchor vanished: RTLIRType.InterfaceView.__eq__")
    fe = m.methods('InterfaceView')['__eq__']

    def view(name, props, args=()):
        items = sorted(props.items())
        return AObj('InterfaceView', name=name, properties=dict(props), args=list(args), kwargs={}, unpacked=False, obj=None, cls=name,
                    get_all_properties_packed=lambda: list(items), get_all_ports_packed=lambda: list(items),
                    get_all_properties=lambda: list(items), get_all_ports=lambda: list(items), get_name=lambda: name,
                    get_args=lambda: (list(args), {}), get_class=lambda: name)
    icases = [("identical interfaces", view('Ifc', {'msg': 'Port8in', 'val': 'Port1in'}, ['Bits8']),
               view('Ifc', {'msg': 'Port8in', 'val': 'Port1in'}, ['Bits8']), True),
              ("the same interface class with another parameter (msg is 16 bits wide)",
               view('Ifc', {'msg': 'Port8in', 'val': 'Port1in'}, ['Bits8']), view('Ifc', {'msg': 'Port16in', 'val': 'Port1in'}, ['Bits16']), False),
              ("the same interface class with one port more", view('Ifc', {'msg': 'Port8in'}, [1]),
               view('Ifc', {'msg': 'Port8in', 'val': 'Port1in'}, [2]), False),
              ("another interface class", view('Ifc', {'msg': 'Port8in'}, ['Bits8']), view('Other', {'msg': 'Port8in'}, ['Bits8']), False)]
    probs = []
    for what, a, b, want in icases:
        n += 1
        try:
            got = _eq_verdict(m, 'InterfaceView', a, b)
        except (Raised, TypeError, ValueError, KeyError, IndexError) as e:
            raise AnalysisError(f"InterfaceView.__eq__ outside the abstract domain: {type(e).__name__}")
        if got is not want:
            probs.append(f"{what}: the views compare {'equal' if got else 'unequal'}")
    cons = "InterfaceView == InterfaceView over (class name, ports)"
    if probs:
        r.bad(m, 'InterfaceView.__eq__', cons, "; ".join(probs) + ": a list like [Ifc(Bits8), Ifc(Bits16)] is admitted as an array "
              "of interfaces and the ports of every element are declared with the types of element 0 (x[1].msg becomes 8 bits wide)",
              fe.lineno)
    else:
        r.ok(m, 'InterfaceView.__eq__', cons)
    # signal types: every member the declaration is built from takes part in the comparison
    spec = {'Port': dict(dtype='Vector8', direction='input', unpacked=False), 'Wire': dict(dtype='Vector8', unpacked=False),
            'Const': dict(dtype='Vector8', unpacked=False, obj=None),
            'Array': dict(dim_sizes=[2, 3], sub_type='Port8in', obj=None, unpacked=True)}
    vary = {'Port': dict(dtype='Vector16', direction='output'), 'Wire': dict(dtype='Vector16'), 'Const': dict(dtype='Vector16'),
            'Array': dict(dim_sizes=[2, 4], sub_type='Port16in')}
    for cn in sorted(spec):
        if cn not in m.classes or '__eq__' not in m.methods(cn):
            raise AnalysisError(f"anchor vanished: RTLIRType.{cn}.__eq__")
        fe = m.methods(cn)['__eq__']
        probs = []
        try:
            n += 1
            if _eq_verdict(m, cn, AObj(cn, **spec[cn]), AObj(cn, **spec[cn])) is not True:
                probs.append("two identical types compare unequal")
            for k_, alt in sorted(vary[cn].items()):
                n += 1
                other = dict(spec[cn]); other[k_] = alt
                if _eq_verdict(m, cn, AObj(cn, **spec[cn]), AObj(cn, **other)) is not False:
                    probs.append(f"types that differ in `{k_}` ({spec[cn][k_]} / {alt}) compare equal")
            n += 1
            try:
                if _eq_verdict(m, cn, AObj(cn, **spec[cn]), AObj('NoneType')) is not False:
                    probs.append("compares equal to an object of another RTLIR type")
            except AObjAttributeError:
                probs.append("the comparison with an object of another RTLIR type reads a member only this type has (AttributeError) "
                             "instead of answering False")
        except (Raised, TypeError, ValueError, KeyError, IndexError) as e:
            raise AnalysisError(f"{cn}.__eq__ outside the abstract domain: {type(e).__name__}")
        cons = f"{cn} == {cn}: sensitive to {sorted(vary[cn])}"
        if probs:
            r.bad(m, f"{cn}.__eq__", cons, "; ".join(probs) + ": array elements of different declarations would share the declaration "
                  "of element 0", fe.lineno)
        else:
            r.ok(m, f"{cn}.__eq__", cons)
    r.evaluations = n
    r.require_floor(8)
    return r


# ---------------------------------------------------------------------------
SV_UTIL = 'pymtl3/passes/backends/verilog/util/utility.py'


def _iterates_ports(it):
    """the iterated expression enumerates the component's packed ports (possibly filtered / wrapped)"""
    return any(isinstance(x, ast.Call) and isinstance(x.func, ast.Attribute) and x.func.attr == 'get_ports_packed' for x in ast.walk(it))


def rule_port_skip(repo, backend):
    r = RuleResult('R-tr-port-skip', f"[{backend}] gen_mapped_ports( m, map, has_clk, has_reset ) leaves out exactly the implicit "
                   f"ports the caller declined: `clk` iff not has_clk, `reset` iff not has_reset; every other port and the other "
                   f"implicit port are kept (evaluated over the 4 flag combinations x {{clk, reset, another port}})")
    rel = SV_UTIL if backend == 'sv' else YS_UTIL
    m = repo.mod(rel)
    f = m.functions.get('gen_mapped_ports')
    if f is None:
        raise AnalysisError(f"anchor vanished: gen_mapped_ports in {rel}")
    params = [a.arg for a in f.args.args]
    flags = [p_ for p_ in params if p_ in ('has_clk', 'has_reset')]
    if len(flags) != 2:
        raise AnalysisError(f"gen_mapped_ports in {rel}: the has_clk / has_reset parameters were not found")
    loops = [x for x in walk_no_nested(f) if isinstance(x, ast.For) and _iterates_ports(x.iter)]
    comps = [x for x in walk_no_nested(f) if isinstance(x, (ast.ListComp, ast.GeneratorExp)) and
             any(_iterates_ports(g.iter) for g in x.generators) and not isinstance(parent(x), ast.For)]
    if not loops and not comps:
        raise AnalysisError(f"gen_mapped_ports in {rel}: the walk over get_ports_packed() was not found")
    pre = {}
    for st in f.body:
        if isinstance(st, ast.Assign) and len(st.targets) == 1 and isinstance(st.targets[0], ast.Name):
            pre[st.targets[0].id] = st.value
    n = 0

    def name_var(target):
        if isinstance(target, (ast.Tuple, ast.List)) and target.elts and isinstance(target.elts[0], ast.Name):
            return target.elts[0].id
        raise AnalysisError(f"gen_mapped_ports in {rel}: the loop over the ports does not unpack (name, port)")

    class Skip(_Interp):
        def ev_Name(self, e):
            if e.id not in self.env and e.id in pre and e.id not in getattr(self, '_busy', ()):
                self._busy = set(getattr(self, '_busy', ())) | {e.id}
                try:
                    return self.ev(pre[e.id])
                finally:
                    self._busy.discard(e.id)
            return super().ev_Name(e)

    def kept(it, body, env):
        """None: not decidable (the port is consumed); True / False: kept / skipped"""
        for st in body:
            if isinstance(st, ast.Pass) or (isinstance(st, ast.Expr) and isinstance(st.value, ast.Constant)):
                continue
            if isinstance(st, ast.Continue):
                return False
            if isinstance(st, ast.If):
                try:
                    t = it.ev(st.test)
                except (AnalysisError, Raised, TypeError, KeyError):
                    return True
                res = kept(it, st.body if t else st.orelse, env)
                if res is not None:
                    return res
                continue
            if isinstance(st, ast.Assign) and len(st.targets) == 1 and isinstance(st.targets[0], ast.Name):
                try:
                    it.env[st.targets[0].id] = it.ev(st.value)
                    continue
                except (AnalysisError, Raised, TypeError, KeyError):
                    return True
            return True
        return None

    sites = [(lp, name_var(lp.target), None) for lp in loops] + \
            [(cp, name_var([g for g in cp.generators if _iterates_ports(g.iter)][0].target), 'comp') for cp in comps]
    for node, nv, kind in sites:
        bad = []
        for hc in (True, False):
            for hr in (True, False):
                for pname in ('clk', 'reset', 'in_'):
                    n += 1
                    env = {flags[0]: hc if flags[0] == 'has_clk' else hr, flags[1]: hr if flags[1] == 'has_reset' else hc, nv: pname}
                    it = Skip({}, env)
                    if kind == 'comp':
                        g = [g for g in node.generators if _iterates_ports(g.iter)][0]
                        try:
                            res = all(it.ev(c) for c in g.ifs)
                        except (AnalysisError, Raised, TypeError, KeyError) as e:
                            raise AnalysisError(f"gen_mapped_ports in {rel}: port filter outside the abstract domain: {norm(node)[:80]}")
                    else:
                        res = True
                        src = node.iter
                        # a filtering comprehension as the iterated expression
                        if isinstance(src, (ast.ListComp, ast.GeneratorExp)):
                            g = src.generators[0]
                            it.env[name_var(g.target)] = pname
                            try:
                                res = all(it.ev(c) for c in g.ifs)
                            except (AnalysisError, Raised, TypeError, KeyError):
                                raise AnalysisError(f"gen_mapped_ports in {rel}: port filter outside the abstract domain: {norm(src)[:80]}")
                        if res:
                            k_ = kept(it, node.body, env)
                            res = True if k_ is None else k_
                    want = not ((pname == 'clk' and not hc) or (pname == 'reset' and not hr))
                    if res != want:
                        bad.append((hc, hr, pname, res))
        cons = f"gen_mapped_ports: ports walked by `{norm(node.iter if kind is None else node)[:70]}`"
        if bad:
            hc, hr, pname, res = bad[0]
            r.bad(m, 'gen_mapped_ports', cons, f"with has_clk={hc}, has_reset={hr} the port `{pname}` is {'kept' if res else 'left out'} "
                  f"({len(bad)} of 12 cases differ): a port is left out iff it is clk and not has_clk, or reset and not has_reset "
                  f"(e.g. an imported module without a clock still has its reset port)", node.lineno)
        else:
            r.ok(m, 'gen_mapped_ports', cons)
    r.evaluations = n
    r.require_floor(1)
    return r


# ---------------------------------------------------------------------------
_ELEM_ACCESSORS = {'get_sub_dtype': 'elem', 'get_sub_type': 'elem', 'get_next_dim_type': 'next'}


def _array_parts(e):
    """(receiver text, role) if e is <X>.get_dim_sizes() / <X>.get_sub_dtype() / <X>.get_sub_type() / <X>.get_next_dim_type()"""
    if isinstance(e, ast.Call) and isinstance(e.func, ast.Attribute) and not e.args and not e.keywords:
        if e.func.attr == 'get_dim_sizes':
            return norm(e.func.value), 'dims'
        if e.func.attr in _ELEM_ACCESSORS:
            return norm(e.func.value), _ELEM_ACCESSORS[e.func.attr]
    return None


def rule_dims_elem(repo, backend):
    r = RuleResult('R-tr-dims-elem', f"[{backend}] where a generator takes an array (packed or unpacked) apart into its list of "
                   f"dimensions and a type that are handed on TOGETHER, the two describe the same array: dimensions handed on ++ "
                   f"dimensions still inside the type = dimensions of the array (evaluated on a 2-D array [2][3]; get_sub_dtype / "
                   f"get_sub_type is the element, get_next_dim_type peels one dimension only)")
    DIMS = [2, 3]
    n = 0
    for rel in backend_files(backend):
        try:
            m = repo.mod(rel)
        except AnalysisError:
            continue
        for q, f in all_functions(m):
            if not any(isinstance(x, ast.Attribute) and x.attr == 'get_dim_sizes' for x in ast.walk(f)):
                continue
            try:
                ex, outs = sym_run(f, rename=False)
            except AnalysisError:
                continue
            exprs = []
            for o in outs:
                if o.value is not None:
                    exprs.append(o.value)
                exprs.extend(c_ for c_, _ in o.calls)
                exprs.extend(val for t, op, val, cs in o.stores)
                exprs.extend(v for v in o.env.values())
            seen = set()
            for top_e in exprs:
                for node in ast.walk(top_e):
                    if isinstance(node, ast.Call):
                        group = list(node.args) + [k.value for k in node.keywords]
                    elif isinstance(node, (ast.Tuple, ast.List)):
                        group = list(node.elts)
                    elif isinstance(node, ast.Dict):
                        group = list(node.values)
                    else:
                        continue
                    for a in group:
                        # a dimension list built from the complete X.get_dim_sizes()
                        recvs = {p_[0] for p_ in (_array_parts(x) for x in ast.walk(a)) if p_ and p_[1] == 'dims'}
                        if len(recvs) != 1 or _array_parts(a) is None and not isinstance(a, ast.BinOp):
                            continue
                        X = next(iter(recvs))
                        for b in group:
                            if b is a:
                                continue
                            pb = _array_parts(b)
                            # (the whole array handed on next to its dimensions is a descriptor, not a decomposition)
                            role = pb[1] if pb and pb[0] == X and pb[1] != 'dims' else None
                            if role is None:
                                continue
                            key = (q, norm(a), norm(b))
                            if key in seen:
                                continue
                            seen.add(key)
                            leaves = {f"{X}.get_dim_sizes()": list(DIMS)}
                            for nm in {x.id for x in ast.walk(a) if isinstance(x, ast.Name)}:
                                leaves.setdefault(nm, [])
                            ok_, av = try_ev(a, leaves)
                            if not ok_ or not isinstance(av, list):
                                continue
                            n += 1
                            inner = {'elem': [], 'next': DIMS[1:]}[role]
                            cons = f"{q}: dimensions `{norm(a)[:60]}` handed on with type `{norm(b)[:60]}`"
                            if av + inner == DIMS:
                                r.ok(m, q, cons)
                            else:
                                r.bad(m, q, cons, f"for a [2][3] array the dimensions handed on are {av} and the type handed on with "
                                      f"them still has the dimensions {inner}: together they describe {av + inner}, not [2, 3] -- "
                                      f"get_next_dim_type() peels only the first dimension (it equals the element type for 1-D arrays "
                                      f"only), so the remaining dimensions are generated twice", f.lineno)
    if n == 0:
        raise AnalysisError("R-tr-dims-elem: no place where an array is taken apart was found")
    r.evaluations = n
    r.require_floor(1 if backend == 'sv' else 7)
    return r


# ---------------------------------------------------------------------------
class _Leaf:
    def __init__(self, args):
        self.args = args


_LEAF_LOG = []
_REC_MODE = ['list', None]


class _LeafStr(str):
    pass


class _RecEv(_Interp):
    """interprets a self-recursive generator; every call of other analysed code is a leaf that records its arguments"""
    def ev_Call(self, e):
        try:
            return super().ev_Call(e)
        except AnalysisError:
            if isinstance(e.func, (ast.Attribute, ast.Name)) and not e.keywords and norm(e.func) not in ('range', 'len'):
                lf = _Leaf(tuple(self.ev(a) for a in e.args))
                if self.env.get(_REC_MODE[1]) == []:      # the base case of the recursion: all dimensions peeled
                    _LEAF_LOG.append(lf)
                return [lf] if _REC_MODE[0] == 'list' else _LeafStr('leaf')
            raise

    def ev_Name(self, e):
        if e.id not in self.env and e.id in ('s', 'self'):
            return AObj('Self')
        return super().ev_Name(e)

    def ev_JoinedStr(self, e):
        out = ''
        for v in e.values:
            out += str(v.value) if isinstance(v, ast.Constant) else format(self.ev(v.value), '')
        return out


def _self_recursive_generators(m):
    """(qualified name, function, dims parameter, is_method): functions that loop over range(P[0]) and call themselves"""
    out = []
    for q, g in all_functions(m):
        params = [a.arg for a in g.args.args]
        if not params:
            continue
        for lp in [x for x in walk_no_nested(g) if isinstance(x, ast.For)]:
            mm = re.search(r"\brange\((\w+)\[0\]\)", norm(lp.iter))
            if not mm or mm.group(1) not in params:
                continue
            calls = [x for x in ast.walk(lp) if isinstance(x, ast.Call) and
                     ((isinstance(x.func, ast.Name) and x.func.id == g.name) or
                      (isinstance(x.func, ast.Attribute) and x.func.attr == g.name and isinstance(x.func.value, ast.Name)
                       and x.func.value.id == params[0]))]
            if calls:
                out.append((q, g, mm.group(1), isinstance(calls[0].func, ast.Attribute)))
                break
    return out


def recursion_cover(g, dims_p, is_method, dims):
    """leaves reached by the generator for the dimension list `dims`: list of tuples of strings, or None if not interpretable"""
    params = [a.arg for a in g.args.args]
    numeric = set()
    for x in walk_no_nested(g):
        if isinstance(x, ast.BinOp) and isinstance(x.op, (ast.Sub, ast.FloorDiv, ast.Mult, ast.Div, ast.Mod)):
            numeric |= {y.id for y in ast.walk(x) if isinstance(y, ast.Name)}
        if isinstance(x, ast.AugAssign) and isinstance(x.op, (ast.Sub, ast.FloorDiv, ast.Mult)) and isinstance(x.target, ast.Name):
            numeric.add(x.target.id)

    def resolve(interp, call):
        own = (isinstance(call.func, ast.Name) and call.func.id == g.name) or \
              (isinstance(call.func, ast.Attribute) and call.func.attr == g.name and isinstance(call.func.value, ast.Name)
               and call.func.value.id == params[0])
        if not own or any(isinstance(a, ast.Starred) for a in call.args):
            return None
        ps = params[1:] if is_method else params
        env = {params[0]: interp.env.get(params[0])} if is_method else {}
        defaults = dict(zip([a.arg for a in g.args.args][len(g.args.args) - len(g.args.defaults):], g.args.defaults))
        for p_, d_ in defaults.items():
            env[p_] = interp.ev(d_)
        for p_, a in zip(ps, call.args):
            env[p_] = interp.ev(a)
        for k in call.keywords:
            env[k.arg] = interp.ev(k.value)
        # free names of an enclosing function stay visible
        for k_, v_ in interp.env.items():
            env.setdefault(k_, v_)
        return g, env
    # parameters tested with isinstance( p, <mod>.K ) are objects of the first kind tested; parameters indexed by the loop
    # variable are nested lists of the array's shape
    kinds, indexed = {}, set()
    loopvars = {y.id for x in walk_no_nested(g) if isinstance(x, ast.For) for y in ast.walk(x.target) if isinstance(y, ast.Name)}
    for x in walk_no_nested(g):
        if isinstance(x, ast.Call) and norm(x.func) == 'isinstance' and len(x.args) == 2 and isinstance(x.args[0], ast.Name):
            try:
                kinds.setdefault(x.args[0].id, _type_names(x.args[1])[0])
            except AnalysisError:
                pass
        if isinstance(x, ast.Subscript) and isinstance(x.value, ast.Name) and isinstance(x.slice, ast.Name) and x.slice.id in loopvars:
            indexed.add(x.value.id)

    def shaped(ds, prefix):
        if not ds:
            return prefix
        return [shaped(ds[1:], f"{prefix}_{i}") for i in range(ds[0])]
    res = None
    for mode in ('list', 'str'):
        env = {}
        for i, p_ in enumerate(params):
            if i == 0 and is_method:
                env[p_] = AObj('Self')
            elif p_ == dims_p:
                env[p_] = list(dims)
            elif p_ in indexed:
                env[p_] = shaped(list(dims), 'e')
            elif p_ in kinds:
                env[p_] = AObj(kinds[p_], nbits=8, get_length=lambda: 8)
            elif p_ in numeric:
                env[p_] = 240
            else:
                env[p_] = re.sub(r'\d', '', p_) or 'p'
        defaults = dict(zip(params[len(params) - len(g.args.defaults):], g.args.defaults))
        it = _RecEv({}, env, resolve)
        for p_, d_ in defaults.items():
            try:
                it.env[p_] = it.ev(d_)
            except AnalysisError:
                pass
        del _LEAF_LOG[:]
        _REC_MODE[0], _REC_MODE[1] = mode, dims_p
        try:
            it.run(g.body)
            continue
        except _HelperReturn as r_:
            res = r_.value
            break
        except (AnalysisError, Raised, TypeError, ValueError, KeyError, IndexError, AttributeError, ZeroDivisionError):
            continue
        finally:
            _REC_MODE[0] = 'list'
    if res is None:
        return None
    if not (isinstance(res, list) and res):
        res = list(_LEAF_LOG)          # the leaves are folded into a string: take the calls made in the base case
    if not res:
        return None
    leaves = []
    for x in res:
        if isinstance(x, _Leaf):
            leaves.append(tuple(str(a) for a in x.args))
        elif isinstance(x, dict):
            leaves.append(tuple(str(v) for k, v in sorted(x.items())))
        else:
            leaves.append((str(x),))
    return leaves


def _cover_problem(leaves, dims):
    a, b = dims
    want_n = a * b
    prod1 = {(i, j) for i in range(a) for j in range(b)}
    prod2 = {(j, i) for i in range(a) for j in range(b)}
    if len(leaves) != want_n:
        return f"the recursion reaches {len(leaves)} leaves instead of {want_n}"
    width = min(len(l) for l in leaves)
    varying = [k for k in range(width) if len({l[k] for l in leaves}) > 1]
    if not varying:
        return "no argument of the leaves depends on the indices"
    for k in varying:
        tuples = [tuple(int(x) for x in re.findall(r"\d+", l[k])) for l in leaves]
        # only components that are built from the indices (names / index strings); running bit counters are not judged here
        if any(len(t) != 2 for t in tuples):
            continue
        st = set(tuples)
        if len(st) != want_n or (st != prod1 and st != prod2):
            return (f"the leaves carry the index pairs {sorted(st)[:8]}{'...' if len(st) > 8 else ''} in `{leaves[0][k]}`-like names, "
                    f"not every (i, j) with i < {a}, j < {b} exactly once")
    return None


def rule_dims_recursion(repo, backend):
    r = RuleResult('R-tr-dims-recursion', f"[{backend}] a generator that peels an array one dimension per recursion level reaches its leaf "
                   f"exactly once for every index tuple: interpreted on the dimension lists [2,3] and [3,2] it produces 6 leaves "
                   f"whose names / indices enumerate every (i, j) once (peeling from the wrong end, e.g. n_dim[:-1], agrees for square "
                   f"arrays only)")
    n = 0
    for rel in backend_files(backend):
        try:
            m = repo.mod(rel)
        except AnalysisError:
            continue
        for q, g, dims_p, is_method in _self_recursive_generators(m):
            probs = []
            judged = 0
            for dims in ([2, 3], [3, 2]):
                leaves = recursion_cover(g, dims_p, is_method, dims)
                if leaves is None:
                    continue
                judged += 1
                n += 1
                p_ = _cover_problem(leaves, dims)
                if p_:
                    probs.append(f"dimensions {dims}: {p_}")
            cons = f"{q}: recursion over `{dims_p}`"
            if judged == 0:
                r.observations.append(f"{q}: the recursion over `{dims_p}` could not be interpreted on concrete dimensions (not judged)")
                continue
            if probs:
                r.bad(m, q, cons, "; ".join(probs) + " -- ports / wires / connections of a non-square array are generated for the "
                      "wrong element set (missing elements are undeclared, extra ones do not exist in the design)", g.lineno)
            else:
                r.ok(m, q, cons)
    if n == 0:
        raise AnalysisError("R-tr-dims-recursion: no recursive array generator was interpretable")
    r.evaluations = n
    r.require_floor(2 if backend == 'sv' else 14)
    return r


# ---------------------------------------------------------------------------
class _AnyStr(str):
    """an unknown, empty value that may be subscripted"""
    def __getitem__(self, k):
        return _AnyStr('') if isinstance(k, str) else str.__getitem__(self, k)


class _Loose(AObj):
    """an abstract object whose unknown attributes read as an empty value and that accepts attribute stores"""


def _loose_attr(interp_cls):
    class L(interp_cls):
        def ev_Attribute(self, e):
            key = norm(e)
            if key in self.leaves:
                return self.leaves[key]
            base = self.ev(e.value)
            if isinstance(base, _Loose):
                v = base.members.get(e.attr, _AnyStr(''))
                if not callable(v):
                    return v
            return super().ev_Attribute(e)

        def _bind(self, target, val):
            if isinstance(target, ast.Attribute):
                base = self.ev(target.value)
                if isinstance(base, AObj):
                    base.members[target.attr] = val
                    return
            return super()._bind(target, val)

        def ev_Call(self, e):
            if isinstance(e.func, ast.Attribute) and e.func.attr == 'format':
                try:
                    base = self.ev(e.func.value)
                except AnalysisError:
                    base = None
                if isinstance(base, str):
                    kw = {}
                    for k in e.keywords:
                        if k.arg is None and isinstance(k.value, ast.Call) and norm(k.value.func) == 'locals':
                            kw.update({n_: v_ for n_, v_ in self.env.items() if isinstance(n_, str)})
                        elif k.arg is not None:
                            kw[k.arg] = self.ev(k.value)
                        else:
                            raise AnalysisError(f"format arguments outside the abstract domain: {norm(e)[:60]}")
                    return base.format(*[self.ev(a) for a in e.args], **kw)
            return super().ev_Call(e)
    return L


_SectionEv = _loose_attr(_Interp)


def rule_component_sections(repo, backend):
    r = RuleResult('R-tr-sections', f"[{backend}] rtlir_tr_component assembles the module text from the sections the other hooks "
                   f"produced (declarations, temporaries, blocks, glue assigns, connections): every non-empty section appears exactly "
                   f"once in the returned text, whatever other sections are empty (interpreted with each section empty / non-empty: "
                   f"all, none, every single one, every pair, and the complements)")
    lk = linker(repo)
    top = backend_class(repo, backend)
    res = lk.find(top, 'rtlir_tr_component')
    if res is None:
        raise AnalysisError("anchor vanished: rtlir_tr_component")
    c, f = res
    params = [a.arg for a in f.args.args]
    if len(params) < 3:
        raise AnalysisError(f"{fq(c, f)}: signature outside the abstract domain")

    def run(nonempty, seen):
        def get_pretty(ns, attr, *rest):
            seen.add(attr)
            return f"<{attr}>\n" if (nonempty is None or attr in nonempty) else ""
        env = {params[0]: _Loose('Self', get_pretty=get_pretty)}
        for p_ in params[1:]:
            env[p_] = _Loose('Namespace', component_name='C', component_file_info='f.py', component_full_name='C_full',
                             component_unique_name='C_unique')
        it = _SectionEv({}, env)
        try:
            it.run(f.body)
        except _HelperReturn as r_:
            return r_.value
        return None
    secs = set()
    try:
        full = run(None, secs)
    except (AnalysisError, Raised, TypeError, ValueError, KeyError, IndexError, AttributeError) as e:
        raise AnalysisError(f"{fq(c, f)}: the assembly of the module text is outside the abstract domain ({type(e).__name__}: {str(e)[:80]})")
    if not isinstance(full, str) or not secs:
        raise AnalysisError(f"{fq(c, f)}: no section obtained through get_pretty reaches a returned string")
    secs = sorted(secs)
    scen = [frozenset(secs), frozenset()]
    scen += [frozenset([a]) for a in secs] + [frozenset(secs) - {a} for a in secs]
    scen += [frozenset(p_) for p_ in itertools.combinations(secs, 2)] + [frozenset(secs) - set(p_) for p_ in itertools.combinations(secs, 2)]
    n = 0
    lost = {}
    for sc in dict.fromkeys(scen):
        n += 1
        try:
            txt = run(sc, set())
        except (AnalysisError, Raised, TypeError, ValueError, KeyError, IndexError, AttributeError) as e:
            raise AnalysisError(f"{fq(c, f)}: the assembly is outside the abstract domain for the sections {sorted(sc)} ({type(e).__name__})")
        if not isinstance(txt, str):
            raise AnalysisError(f"{fq(c, f)}: no text is returned for the sections {sorted(sc)}")
        for a in sorted(sc):
            k_ = txt.count(f"<{a}>")
            if k_ != 1:
                lost.setdefault(a, []).append((sorted(sc), k_))
    for a in secs:
        cons = f"rtlir_tr_component: section `{a}`"
        if a in lost:
            sc, k_ = min(lost[a], key=lambda x: len(x[0]))
            r.bad(c.mod, fq(c, f), cons, f"with the non-empty sections {sc} the text of `{a}` appears {k_} times in the module text "
                  f"({len(lost[a])} of {n} combinations): {'the declarations / assigns of this section vanish from the emitted module (undeclared or undriven names)' if k_ == 0 else 'the section is emitted more than once (duplicate declarations / drivers)'}",
                  f.lineno)
        else:
            r.ok(c.mod, fq(c, f), cons)
    r.evaluations = n
    r.require_floor(9 if backend == 'sv' else 13)
    return r
