"""Triage reproduction (runs pymtl3; NOT part of any check).  C15 claim (f1): a loop-back connection between two ports of the same child made at the parent is lost on replacement
Builds a design, replaces a component with replace_component and compares with the same design built from scratch.
Exit status 1 when the defect shows, 0 when the behaviour equals a fresh build.   /venv/bin/python c15_loopback_connection_lost.py"""
import sys
from pymtl3 import *
from pymtl3.dsl.Connectable import Const

class Child(Component):
  def construct(s):
    s.in_ = InPort(8); s.out = OutPort(8); s.fb_in = InPort(8); s.fb_out = OutPort(8)
    s.out //= s.fb_in
    s.fb_out //= s.in_
class Top(Component):
  def construct(s):
    s.in_ = InPort(8); s.out = OutPort(8)
    s.c = Child()
    s.c.in_ //= s.in_
    s.out //= s.c.out
    s.c.fb_in //= s.c.fb_out       # made at the parent, both ends belong to the child
a = Top(); a.elaborate()
try:
  a.replace_component(a.c, Child)
except Exception as e:
  print('replace_component raised', type(e).__name__, str(e).replace('\n', ' ')[:120]); sys.exit(1)
b = Top(); b.elaborate()
na = sorted(sorted(map(repr, n)) for w, n in a.get_all_value_nets()); nb = sorted(sorted(map(repr, n)) for w, n in b.get_all_value_nets())
print('nets equal a fresh build:', na == nb)
sys.exit(0 if na == nb else 1)
