# Bits8(-3) in an update block: the Yosys back-end formats the folded Python int, giving 8'd-3 (not Verilog); SV emits 8'd253
import os, tempfile, sys
from pymtl3 import *
from pymtl3.passes.backends.verilog import VerilogTranslationPass
from pymtl3.passes.backends.yosys import YosysTranslationPass
os.chdir( tempfile.mkdtemp( prefix = 'c12tri_' ) )
class A( Component ):
  def construct( s ):
    s.o = OutPort( Bits8 )
    @update
    def up():
      s.o @= Bits8( -3 )
m = A(); m.elaborate(); m.apply( DefaultPassGroup() ); m.sim_reset(); m.sim_eval_combinational(); print( 'simulation', m.o )
bad = 0
for P in ( VerilogTranslationPass, YosysTranslationPass ):
  m = A(); m.elaborate(); m.set_metadata( P.enable, True )
  try:
    m.apply( P() )
  except Exception as e:
    print( P.__name__, 'refused', type(e).__name__, str(e)[:300] ); continue
  src = open( m.get_metadata( P.translated_filename ) ).read()
  print( P.__name__, [ l.strip() for l in src.splitlines() if ' o = ' in l ] )
  if "'d-" in src: bad = 1
if bad: print( "DEFECT: the constant cast Bits8(-3) is emitted as 8'd-3, which is not Verilog" )
sys.exit( bad )
