# claim (g): sub-component instance names are not checked against the reserved words (C13 / R-C13-reserved territory)
import sys
from c03_common import *

class Child( Component ):
  def construct( s ):
    s.a = InPort( Bits8 ); s.o = OutPort( Bits8 )
    @update
    def up(): s.o @= s.a

class G( Component ):
  def construct( s ):
    s.a = InPort( Bits8 ); s.o = OutPort( Bits8 )
    s.buf = Child()                 # `buf` is a Verilog-1995 keyword
    s.buf.a //= s.a; s.o //= s.buf.o

try:
  text = translate( G )
except Exception as e:
  print( "translation refused:", type( e ).__name__ ); sys.exit( 0 )
print( "\n".join( l for l in text if 'buf' in l ) )
if any( l.strip() == 'Child_noparam buf' for l in text ):
  print( "DEFECT: an instance is named `buf` (reserved word); ports/wires named like that are rejected, instance names are not" )
  sys.exit( 1 )
print( "not reproduced" )
