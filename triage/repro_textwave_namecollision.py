from pymtl3 import *
from pymtl3.passes.tracing.PrintTextWavePass import PrintTextWavePass
def t(name, f):
    try:
        r = f(); print(name, '->', r)
    except Exception as e:
        print(name, 'RAISED', type(e).__name__, str(e)[:300].replace('\n',' '))

class A(Component):
  def construct(s):
    s.in_ = InPort(8); s.out = OutPort(8)
    @update_ff
    def up(): s.out <<= s.in_
class B(Component):
  def construct(s):
    s.foo = InPort(4); s.bar = OutPort(4)
    @update
    def up(): s.bar @= s.foo
def tw():
  a = A(); a.apply(DefaultPassGroup(textwave=True)); a.sim_reset()
  b = B(); b.apply(DefaultPassGroup(textwave=True)); b.sim_reset()
  a.in_ @= 5; a.sim_tick(); a.in_ @= 6; a.sim_tick()
  da = a.get_metadata(PrintTextWavePass.textwave_dict)
  db = b.get_metadata(PrintTextWavePass.textwave_dict)
  return {k: len(v) for k,v in da.items()}, {k: len(v) for k,v in db.items()}
t('two textwave tops', tw)

# module name collision
from pymtl3.passes.backends.verilog import VerilogTranslationPass
def mk(n):
  class Leaf(Component):
    def construct(s):
      s.in_ = InPort(n); s.out = OutPort(n)
      @update
      def up(): s.out @= s.in_ + 1
  return Leaf
class TopC(Component):
  def construct(s):
    s.a = mk(4)(); s.b = mk(8)()
    s.i4 = InPort(4); s.i8 = InPort(8); s.o4 = OutPort(4); s.o8 = OutPort(8)
    s.a.in_ //= s.i4; s.a.out //= s.o4; s.b.in_ //= s.i8; s.b.out //= s.o8
def coll():
  import os
  os.chdir('/tmp/triage')
  m = TopC(); m.elaborate()
  m.set_metadata(VerilogTranslationPass.enable, True)
  m.apply(VerilogTranslationPass())
  fn = m.get_metadata(VerilogTranslationPass.translated_filename)
  txt = open(fn).read()
  import re
  return re.findall(r'^module (\w+)', txt, re.M), re.findall(r'^\s*(Leaf\w*) (\w+)', txt, re.M), [l for l in txt.splitlines() if 'logic' in l and ('in_' in l)][:6]
t('name collision', coll)

class SB(Component):
  def construct(s):
    s.a = InPort(8); s.b = InPort(8); s.out = OutPort(4)
    @update
    def up(): s.out @= (s.a + s.b)[0:4]
def sb():
  m = SB(); m.elaborate()
  m.set_metadata(VerilogTranslationPass.enable, True)
  m.apply(VerilogTranslationPass())
  fn = m.get_metadata(VerilogTranslationPass.translated_filename)
  return [l for l in open(fn).read().splitlines() if 'out =' in l]
t('slice of binop', sb)
