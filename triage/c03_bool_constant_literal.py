# claim (f): a bool attribute constant is emitted as the literal 1'dTrue (str() of the Python bool)
import sys
from c03_common import *

class F( Component ):
  def construct( s ):
    s.a = InPort( Bits8 ); s.o = OutPort( Bits8 )
    s.EN = True
    @update
    def up():
      if s.EN:
        s.o @= s.a
      else:
        s.o @= 0

text = translate( F )
print( "\n".join( text ) )
if any( "'dTrue" in l or "'dFalse" in l for l in text ):
  print( "DEFECT: `if s.EN:` with s.EN = True is emitted as `if ( 1'dTrue )` (not a Verilog literal)" )
  sys.exit( 1 )
print( "not reproduced" )
