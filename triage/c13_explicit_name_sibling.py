"""Triage (C13: "every instantiated module name is defined"): two instances of ONE class in one parent, one of them with
VerilogTranslationPass.explicit_module_name = 'FastAdder', the other without.

RTLIRTranslator.translate_component stores the emitted definition under component_unique_name[m] (Adder__nbits_8 for both)
and skips the second one, while rtlir_tr_component names the emitted module by the explicit name when there is one and each
instantiation site honours the child's own explicit name.  Exit 1 when the emitted text instantiates a module that is not
defined.

Run:  /venv/bin/python /verif/triage/c13_explicit_name_sibling.py [yosys]
"""
import os, re, sys, tempfile
os.chdir(tempfile.mkdtemp())
from pymtl3 import *
from pymtl3.passes.backends.verilog import VerilogTranslationPass
from pymtl3.passes.backends.yosys import YosysTranslationPass

P = YosysTranslationPass if sys.argv[1:] == ['yosys'] else VerilogTranslationPass


class Adder(Component):
  def construct(s, nbits):
    s.a = InPort(nbits)
    s.out = OutPort(nbits)

    @update
    def up():
      s.out @= s.a + 1


class Top(Component):
  def construct(s):
    s.a = InPort(8)
    s.x = OutPort(8)
    s.y = OutPort(8)
    s.add0 = Adder(8)
    s.add1 = Adder(8)
    s.add0.a //= s.a
    s.add1.a //= s.a
    s.add0.out //= s.x
    s.add1.out //= s.y


bad = 0
for named in ('add0', 'add1'):
  top = Top()
  top.set_metadata(P.enable, True)
  top.elaborate()
  getattr(top, named).set_metadata(P.explicit_module_name, 'FastAdder')
  top.apply(P())
  txt = open(top.get_metadata(P.translated_filename)).read()
  defined = set(re.findall(r'^module\s+(\w+)', txt, re.M))
  insts = set(re.findall(r'^\s+(\w+)\s+add[01]\b', txt, re.M))
  undefined = sorted(insts - defined)
  print(f"explicit name on {named}: defined {sorted(defined)}, instantiated {sorted(insts)}, undefined {undefined}")
  bad |= bool(undefined)
sys.exit(1 if bad else 0)
