# claim (a): a chained assignment `x = y = e` is emitted as two statements; as the ONLY statement of an else branch (or a
# for body) it is not wrapped in begin/end, so the second statement runs unconditionally.
# (pre-existing: before a2d72be the chain was already emitted as two statements, one per target)
import sys
from c03_common import *

class A( Component ):
  def construct( s ):
    s.in_ = InPort( Bits8 ); s.sel = InPort( Bits1 ); s.o1 = OutPort( Bits8 ); s.o2 = OutPort( Bits8 )
    @update
    def up():
      x = s.in_
      y = s.in_
      if s.sel:
        x = s.in_ + 1
      else:
        x = y = s.in_ + 2
      s.o1 @= x
      s.o2 @= y

sim = simulate( A, { 'in_' : 5, 'sel' : 1 }, [ 'o1', 'o2' ] )
print( "simulation sel=1:", sim )          # o1 = 6, o2 = 5
text = translate( A )
print( "\n".join( text ) )
i = [ k for k, l in enumerate( text ) if l.strip() == 'else' ]
bad = bool( i ) and not text[ i[0] + 2 ].strip().startswith( 'end' ) and '__tmpvar__up_x = __tmpvar__up_y' in text[ i[0] + 2 ]
if bad:
  print( "DEFECT: `else` is followed by two statements without begin/end: `x = y` executes for sel=1 too (Verilog o1 = 5, simulation 6)" )
  sys.exit( 1 )
print( "not reproduced" )
