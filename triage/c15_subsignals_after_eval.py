"""Triage reproduction (runs pymtl3; NOT part of any check).  C15 claim (a): slices / struct fields re-created by eval() in _add_component never reach all_signals; const nets on them are lost
Builds a design, replaces a component with replace_component and compares with the same design built from scratch.
Exit status 1 when the defect shows, 0 when the behaviour equals a fresh build.   /venv/bin/python c15_subsignals_after_eval.py"""
import sys
from pymtl3 import *
from pymtl3.dsl.Connectable import Const

class Child(Component):
  def construct(s):
    s.in_ = InPort(8); s.out = OutPort(8)
    @update
    def up(): s.out @= s.in_
class Top(Component):
  def construct(s):
    s.out = OutPort(4); s.o2 = OutPort(8)
    s.c = Child()
    s.c.in_[0:4] //= 5            # constant on a slice of the child's port, made at the parent
    s.c.in_[4:8] //= 0
    s.o2 //= s.c.out
    @update
    def up_top(): s.out @= s.c.out[0:4]
def run(t):
  t.apply(DefaultPassGroup()); t.sim_reset(); t.sim_tick(); return int(t.out), int(t.o2)
a = Top(); a.elaborate(); a.replace_component(a.c, Child)
b = Top(); b.elaborate()
sa, sb = sorted(map(repr, a._dsl.all_signals)), sorted(map(repr, b._dsl.all_signals))
na, nb = len(a.get_all_value_nets()), len(b.get_all_value_nets())
ra, rb = run(a), run(b)
print('signals missing after replace:', [x for x in sb if x not in sa]); print('value nets', na, 'vs fresh', nb); print('simulation', ra, 'vs fresh', rb)
sys.exit(1 if (sa != sb or na != nb or ra != rb) else 0)
