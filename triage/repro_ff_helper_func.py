# D19: a `<<=` inside an @s.func helper called from an update_ff block is never committed
from pymtl3 import *
class A(Component):
  def construct(s):
    s.in_ = InPort(8); s.out = OutPort(8)
    @s.func
    def store( v ):
      s.out <<= v
    @update_ff
    def up():
      store( s.in_ )
t = A(); t.elaborate(); t.apply(DefaultPassGroup()); t.sim_reset()
t.in_ @= 5; t.sim_tick(); t.sim_tick()
print('out after two ticks with in_=5:', t.out, '(expected 05)')
