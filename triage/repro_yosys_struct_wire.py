# Remaining C12 finding (R-C12-wire-forms): a struct-typed Wire in the Yosys back-end is declared as a packed
# wire `w` plus per-field wires `w__x`, `w__y`, but nothing connects the two forms.
# Block up1 writes the whole wire, block up2 reads one field: in the emitted Verilog `w__x` has no driver.
from pymtl3 import *
from pymtl3.passes.backends.yosys import YosysTranslationPass

@bitstruct
class Pair:
  x: Bits4
  y: Bits4

class T( Component ):
  def construct( s ):
    s.in_ = InPort( Pair )
    s.out = OutPort( Bits4 )
    s.w   = Wire( Pair )
    @update
    def up1():
      s.w @= s.in_
    @update
    def up2():
      s.out @= s.w.x

# PyMTL simulation: out follows in_.x
t = T(); t.elaborate(); t.apply( DefaultPassGroup() ); t.sim_reset()
t.in_ @= Pair( 0xA, 0x3 ); t.sim_eval_combinational()
print( "simulation: out =", t.out )
assert t.out == 0xA

# Yosys translation
t = T(); t.elaborate()
t.set_metadata( YosysTranslationPass.enable, True )
t.apply( YosysTranslationPass() )
src = open( t.get_metadata( YosysTranslationPass.translated_filename ) ).read()
body = [ l.strip() for l in src.splitlines() if l.strip() and not l.strip().startswith('//') ]
print( "\n".join( l for l in body if 'w' in l.split('//')[0] and ('logic' in l or '=' in l) ) )
drivers_of_w_x = [ l for l in body if l.replace(' ', '').startswith(('w__x=', 'assignw__x=')) ]
print( "drivers of w__x:", drivers_of_w_x )
assert not drivers_of_w_x, "defect repaired?"
print( "DEFECT REPRODUCED: `out = w__x` is emitted, `w = in_` is emitted, but w__x is never driven from w" )
