# D20: a loop variable used as list index is resolved as a module-level global of the same name
from pymtl3 import *
i = 1
class A(Component):
  def construct(s):
    s.in_ = InPort(8)
    s.regs = [ OutPort(8) for _ in range(4) ]
    @update_ff
    def up():
      for i in range(4):
        s.regs[i] <<= s.in_
t = A(); t.elaborate(); t.apply(DefaultPassGroup()); t.sim_reset()
t.in_ @= 7; t.sim_tick(); t.sim_tick()
print([int(x) for x in t.regs], '(expected [7, 7, 7, 7])')
