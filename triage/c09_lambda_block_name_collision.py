# claim (C09, R-C09-lambda-name): the update block generated for `target //= lambda` is named after repr(target) with
# '.', '[', ']', ':' each replaced by '_'.  That is not injective: s.a.b (port b of child a) and s.a_b (a wire of the
# same component) both become _lambda__s_a_b, s.x[0] and s.x_0_ both become _lambda__s_x_0_.  A legal design with two such
# lambda targets in one component is rejected with UpblkFuncSameNameError.   exit 1 = defect reproduced
import sys
from pymtl3 import *

class Sub( Component ):
  def construct( s ):
    s.b = InPort( Bits8 )

class A( Component ):
  def construct( s ):
    s.i   = InPort( Bits8 )
    s.a   = Sub()
    s.a_b = Wire( Bits8 )
    s.a.b //= lambda: s.i + 1
    s.a_b //= lambda: s.i + 2

class B( Component ):
  def construct( s ):
    s.i    = InPort( Bits8 )
    s.x    = [ Wire( Bits8 ) for _ in range(2) ]
    s.x_0_ = Wire( Bits8 )
    s.x[0] //= lambda: s.i + 1
    s.x_0_ //= lambda: s.i + 2

bad = 0
for cls in ( A, B ):
  try:
    cls().elaborate()
    print( cls.__name__, "elaborates" )
  except Exception as e:
    print( cls.__name__, "rejected:", type(e).__name__, str(e).strip()[:100] )
    bad += 1
if bad:
  print( "DEFECT: legal designs with two distinct `//= lambda` targets are rejected (generated block names collide)" )
  sys.exit( 1 )
print( "not reproduced" )
