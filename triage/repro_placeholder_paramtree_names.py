from pymtl3 import *
def t(name, f):
    try:
        r = f(); print(name, '->', r)
    except Exception as e:
        print(name, 'RAISED', type(e).__name__, str(e)[:200].replace('\n',' '))
class PH(Component, Placeholder):
  def construct(s):
    s.a = InPort(8); s.b = OutPort(8)
    connect(s.a, s.b)
class T(Component):
  def construct(s):
    s.p = PH()
t('connect in placeholder', lambda: T().elaborate())

class Leaf(Component):
  def construct(s, n=1):
    s.in_ = InPort(8); s.out = OutPort(8)
    s.out //= s.in_
class Leaf2(Component):
  def construct(s, n=1):
    s.in_ = InPort(8); s.out = OutPort(8)
    s.out //= s.in_
class TL(Component):
  def construct(s):
    s.in_ = InPort(8); s.out = OutPort(8)
    s.l = [Leaf() for _ in range(2)]
    s.l[0].in_ //= s.in_; s.l[1].in_ //= s.l[0].out; s.l[1].out //= s.out
def rp():
  top = TL()
  top.set_param('top.l[1].construct', n=3)
  top.elaborate()
  top.replace_component(top.l[1], Leaf2)
  return sorted(repr(c) for c in top.get_all_components())
t('replace list elem with set_param', rp)

from pymtl3.passes.backends.verilog.util.utility import get_component_unique_name
from pymtl3.passes.rtlir import RTLIRGetter
class P(Component):
  def construct(s, k=0, name='a'):
    s.in_ = InPort(8)
def nm(**kw):
  m = P(**kw); m.elaborate()
  return get_component_unique_name(RTLIRGetter(cache=False).get_rtlir(m))
t('name k=-1', lambda: nm(k=-1))
t("name name='x=y'", lambda: nm(name='x=y'))
t("name k=(1,2)", lambda: nm(k=(1,2)))
t("name k=1 vs '1'", lambda: (nm(k=1), nm(k='1')))
