import os, tempfile, sys
from pymtl3 import *
from pymtl3.passes.backends.verilog import VerilogTranslationPass
from pymtl3.passes.backends.yosys import YosysTranslationPass
os.chdir( tempfile.mkdtemp( prefix = 'c03tri_' ) )
K = -1
TBL = [ -1, 2, -3 ]
class A( Component ):
  def construct( s ):
    s.a = InPort( Bits2 ); s.o = OutPort( Bits8 ); s.p = OutPort( Bits8 ); s.q = OutPort( Bits8 ); s.r = OutPort( Bits8 )
    s.C = -2
    @update
    def up():
      s.o @= K
      s.p @= s.C
m = A(); m.elaborate(); m.apply(DefaultPassGroup()); m.sim_reset(); m.a @= 2; m.sim_eval_combinational(); print('simulation', m.o, m.p, m.q, m.r)
bad = 0
for P in ( VerilogTranslationPass, YosysTranslationPass ):
  m = A(); m.elaborate(); m.set_metadata( P.enable, True )
  try:
    m.apply( P() )
  except Exception as e:
    print( P.__name__, 'refused', type(e).__name__, str(e)[:300] ); continue
  src = open( m.get_metadata( P.translated_filename ) ).read()
  body = src[ src.rfind( '// PyMTL Component' ): ]
  lines = [ l for l in body.splitlines() if "'d" in l or '__const__' in l ]
  print( P.__name__ ); print( "\n".join( lines ) )
  if "'d-" in body: bad = 1
if bad: print( "DEFECT: a negative constant is emitted as <n>'d-<v>, which is not Verilog" )
sys.exit( bad )
