from pymtl3 import *
from pymtl3.dsl.errors import *
def t(name, f):
    try:
        r = f(); print(name, '->', r)
    except Exception as e:
        import traceback
        print(name, 'RAISED', type(e).__name__, str(e)[:200].replace('\n',' '))

class Inner(Component):
  def construct(s):
    s.in_ = InPort(8); s.out = OutPort(8); s.w = Wire(8)
    @update
    def up_i():
      s.out @= s.w
    @update
    def up_w():
      s.w @= s.in_
    s.add_constraints( WR(s.w) > U(up_i) )  # silly but legal: inverts
  @method_port
  def foo(s): pass
class Inner2(Component):
  def construct(s):
    s.in_ = InPort(8); s.out = OutPort(8)
    @update_once
    def up_once():
      s.out @= s.in_
    s.add_constraints( M(s.foo) < U(up_once) )
  @method_port
  def foo(s): pass
class Top(Component):
  def construct(s, C):
    s.in_ = InPort(8); s.out = OutPort(8)
    s.c = C()
    s.c.in_ //= s.in_
    s.c.out //= s.out
class Repl(Component):
  def construct(s):
    s.in_ = InPort(8); s.out = OutPort(8)
    s.out //= s.in_

def run(C):
  top = Top(C); top.elaborate()
  top.replace_component(top.c, Repl)
  uu, rd, wr, mm = top.get_all_explicit_constraints()
  return dict(WR={repr(k):len(v) for k,v in wr.items()}, RD={repr(k):len(v) for k,v in rd.items()}, M=len(mm), once=len(top.get_all_update_once()),
     named=sorted(repr(x) for x in top.get_all_object_filter(lambda x: True) if 'deleted' in repr(x) or not hasattr(x._dsl,'elaborate_top')))
t('replace Inner (WR_U)', lambda: run(Inner))
t('replace Inner2 (M, once)', lambda: run(Inner2))

# interface leftover
from pymtl3.stdlib.queues import NormalQueueRTL
class TopQ(Component):
  def construct(s):
    s.q = NormalQueueRTL(Bits8, 2)
    s.in_ = InPort(8)
    s.q.enq.msg //= s.in_
    s.q.enq.en //= 0
    s.q.deq.en //= 0
def runq():
  top = TopQ(); top.elaborate()
  n0 = len(top.get_all_object_filter(lambda x: True))
  top.replace_component(top.q, NormalQueueRTL)
  n1 = len(top.get_all_object_filter(lambda x: True))
  fresh = TopQ(); fresh.elaborate()
  stale = [repr(x) for x in top.get_all_object_filter(lambda x: True) if not hasattr(x._dsl,'elaborate_top')]
  missing = sorted(set(map(repr, fresh.get_all_object_filter(lambda x: True))) - set(map(repr, top.get_all_object_filter(lambda x: True))))
  adj_const = [repr(k) for k in top.get_signal_adjacency_dict() if not hasattr(k._dsl, 'parent_obj')]
  return n0, n1, 'stale', stale[:5], 'missing', missing[:6], 'adjconst', adj_const
t('replace queue', runq)
