# a negative loop step that is a constant (s.K = -3 / a negative free variable), not a negated literal: visit_For emits the
# two's complement of the constant as the amount to subtract (j -= 3'd5 for step -3); both back-ends
import os, re, sys, tempfile
from pymtl3 import *
from pymtl3.passes.backends.verilog import VerilogTranslationPass
from pymtl3.passes.backends.yosys import YosysTranslationPass
os.chdir( tempfile.mkdtemp( prefix = 'c03tri_' ) )
class A( Component ):
  def construct( s ):
    s.p = OutPort( Bits8 )
    s.K = -3
    @update
    def up():
      s.p @= 0
      for j in range( 7, 0, s.K ):
        s.p @= s.p + 1
m = A(); m.elaborate(); m.apply( DefaultPassGroup() ); m.sim_reset(); m.sim_eval_combinational(); print( 'simulation: iterations =', m.p )
bad = 0
for P in ( VerilogTranslationPass, YosysTranslationPass ):
  m = A(); m.elaborate(); m.set_metadata( P.enable, True )
  try:
    m.apply( P() )
  except Exception as e:
    print( P.__name__, 'refused', type(e).__name__, str(e)[:200] ); continue
  src = open( m.get_metadata( P.translated_filename ) ).read()
  hdr = [ l.strip() for l in src.splitlines() if 'for (' in l ]
  print( P.__name__, hdr )
  if any( re.search( r"-=? *3'd5|- 3'd5", h ) for h in hdr ): bad = 1
if bad: print( "DEFECT: range(7, 0, s.K) with s.K = -3 counts down by 3'd5 (= 5) instead of 3" )
sys.exit( bad )
