# chained temporary assignment whose RHS reads the LAST target
from pymtl3 import *
from pymtl3.passes.backends.verilog import VerilogTranslationPass
class A(Component):
  def construct(s):
    s.in_ = InPort(Bits8)
    s.out = OutPort(Bits8)
    @update
    def up():
      mid = s.in_
      acc = mid = mid + 1
      s.out @= acc
a = A(); a.elaborate(); a.apply(DefaultPassGroup()); a.sim_reset()
a.in_ @= 5; a.sim_eval_combinational(); print('sim out =', a.out)
a = A(); a.elaborate(); a.set_metadata(VerilogTranslationPass.enable, True)
try:
  a.apply(VerilogTranslationPass())
  src = open(a.get_metadata(VerilogTranslationPass.translated_filename)).read()
  print(src[src.index('always_comb'):src.index('endmodule')])
except Exception as e:
  print('translation refused:', type(e).__name__, str(e)[:300])
