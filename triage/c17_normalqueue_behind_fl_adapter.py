"""Triage (not part of any check): NormalQueueCL fed by a FUNCTIONAL-LEVEL producer through the adapter that
connect( SendIfcFL, queue.enq ) inserts (RecvFL2SendCL, pass-through constraint M(recv) == M(send)).

  FL producer block --SendIfcFL--> [RecvFL2SendCL] ==> NormalQueueCL.enq     .deq <-- CL consumer block

NormalQueueCL computes its rdy flags in an update block (up_pulse) and states U(up_pulse) < M(enq.rdy), M(deq.rdy).
The adapter calls send.rdy() from inside its blocking recv; the producer's block does not inherit that constraint
(the DAG has up_pulse < up_consume but no up_pulse < up_produce), so under some schedules the producer reads the
flag computed in the PREVIOUS cycle.

usage: c17_normalqueue_behind_fl_adapter.py [runs=40] [--default]
  default: SimpleSimPass (its scheduler shuffles unconstrained blocks); --default: DefaultPassGroup.
Exit 1 if a message is lost / duplicated / reordered, or accepted while the queue is full.
Reported in addition (not failures): cycles in which the producer read a stale flag, and lanes whose accept /
delivery CYCLES differ from the normal-queue reference model (timing only).
"""
import random, sys
from pymtl3 import *
from pymtl3.passes.PassGroups import SimpleSimPass
from pymtl3.stdlib.queues import NormalQueueCL
from pymtl3.stdlib.ifcs import SendIfcFL

class Clock: now = 0

class ProducerFL( Component ):
  def construct( s, msgs, clock, q_of ):
    s.send = SendIfcFL(); s.msgs = list( msgs ); s.idx = 0; s.log = []
    s.stale = 0; s.full_accepts = 0
    @update_once
    def up_produce():
      if not s.reset and s.idx < len(s.msgs):
        q = q_of()
        truth = s.start_len < q.queue.maxlen               # a normal queue: ready iff not full at the START of the cycle
        if q.enq_rdy != truth: s.stale += 1               # the flag the adapter is about to read is out of date
        if q.enq_rdy and len( q.queue ) >= q.queue.maxlen: s.full_accepts += 1   # ready although full NOW: would drop a message
        msg = s.msgs[ s.idx ]
        before = len( q.queue )
        s.send( msg )                                      # blocks until the queue takes it
        s.log.append( (clock.now, int(msg)) )
        s.idx += 1
    s.asked = -1; s.start_len = 0

class ConsumerCL( Component ):
  def construct( s, wants, clock ):
    s.get = CallerIfcCL(); s.wants = wants; s.log = []
    @update_once
    def up_consume():
      t = clock.now
      if not s.reset and t < len(s.wants) and s.wants[ t ] and s.get.rdy():
        s.log.append( (t, int( s.get() )) )

class Lane( Component ):
  def construct( s, n, msgs, deq_wants, clock ):
    s.q    = NormalQueueCL( n )
    s.prod = ProducerFL( msgs, clock, lambda: s.q )
    s.cons = ConsumerCL( deq_wants, clock )
    connect( s.prod.send, s.q.enq )
    connect( s.cons.get,  s.q.deq )

class Top( Component ):
  def construct( s, lanes, clock ):
    s.lanes = [ Lane( *cfg, clock ) for cfg in lanes ]

def model( n, msgs, deq_wants, ncycles ):
  fifo, acc, dlv, idx = [], [], [], 0
  for t in range( ncycles ):
    occ = len( fifo )
    do_deq = deq_wants[t] and occ > 0
    do_enq = idx < len(msgs) and occ < n
    if do_deq: dlv.append( (t, fifo.pop(0)) )
    if do_enq: fifo.append( int(msgs[idx]) ); acc.append( (t, int(msgs[idx])) ); idx += 1
  return acc, dlv

def main():
  runs    = int( sys.argv[1] ) if len(sys.argv) > 1 and sys.argv[1].isdigit() else 40
  shuffle = '--default' not in sys.argv
  bad = stale_cycles = stale_lanes = timing = lanes = unsafe = 0
  for run in range( runs ):
    rng = random.Random( 0xC17 + run )
    ncycles, cfgs, nxt = 80, [], 1
    for rep in range(4):
      for n in [ 1, 2, 3 ]:
        msgs = [ Bits16( (nxt + k) & 0xffff ) for k in range( ncycles ) ]; nxt += ncycles
        p = rng.choice( [ 0.3, 0.6, 0.9 ] )
        cfgs.append( ( n, msgs, [ rng.random() < p for t in range( ncycles ) ] ) )
    random.seed( run )                       # SimpleSchedulePass shuffles with the global RNG
    clock = Clock(); top = Top( cfgs, clock )
    top.apply( SimpleSimPass() if shuffle else DefaultPassGroup() )
    clock.now = 0; top.sim_reset()
    for t in range( 1, ncycles ):
      for lane in top.lanes: lane.prod.start_len = len( lane.q.queue )     # occupancy at the start of cycle t
      clock.now = t; top.sim_tick()
    for i, ( (n, msgs, dw), lane ) in enumerate( zip( cfgs, top.lanes ) ):
      lanes += 1
      accepted  = [ m for (_, m) in lane.prod.log ]
      delivered = [ m for (_, m) in lane.cons.log ]
      in_queue  = [ int(x) for x in reversed( lane.q.queue ) ]
      problems = []
      if accepted != [ int(m) for m in msgs[:len(accepted)] ]:
        problems.append( "accepted messages are not a prefix of the offered ones" )
      if delivered + in_queue != accepted:
        lost = [ m for m in accepted if m not in delivered + in_queue ]
        problems.append( f"accepted {len(accepted)}, delivered+stored {len(delivered)+len(in_queue)}: lost {[hex(m) for m in lost[:4]]}"
                         if lost else "delivered sequence is not the accepted sequence (reorder / duplicate)" )
      if problems:
        bad += 1
        if bad <= 8: print( f"run {run} lane {i} (NormalQueueCL capacity {n}): " + "; ".join( problems ) )
      stale_cycles += lane.prod.stale
      unsafe += lane.prod.full_accepts
      stale_lanes  += lane.prod.stale > 0
      acc, dlv = model( n, msgs, dw, ncycles )
      timing += ( lane.prod.log != acc or lane.cons.log != dlv )
  print( f"{'SimpleSimPass (shuffled)' if shuffle else 'DefaultPassGroup'}: {lanes} lanes over {runs} elaborations" )
  print( f"  lanes that lost / duplicated / reordered a message        : {bad}" )
  print( f"  lanes in which the producer read enq_rdy != (not full at cycle start): {stale_lanes} ({stale_cycles} cycles)" )
  print( f"  cycles in which the flag read was high while the queue was full      : {unsafe}" )
  print( f"  lanes whose accept/delivery CYCLES differ from the reference: {timing} (timing only)" )
  sys.exit( 1 if bad or unsafe else 0 )

main()
