# Yosys back-end: fields of a struct-typed OUTPUT port written in an update block: the flat port o2__a is assigned in the
# always block and also by the glue `assign o2__a = o2[7:4]` whose source, the packed wire o2, is never driven (port analogue of D21)
import os, tempfile, sys
from pymtl3 import *
from pymtl3.passes.backends.yosys import YosysTranslationPass
os.chdir( tempfile.mkdtemp( prefix = 'c12tri_' ) )
@bitstruct
class P:
  a: Bits4
  b: Bits4
class A( Component ):
  def construct( s ):
    s.i = InPort( P ); s.o = OutPort( P ); s.o2 = OutPort( P )
    s.o //= s.i
    @update
    def up():
      s.o2.a @= s.i.b
      s.o2.b @= s.i.a
m = A(); m.elaborate(); m.set_metadata( YosysTranslationPass.enable, True ); m.apply( YosysTranslationPass() )
src = open( m.get_metadata( YosysTranslationPass.translated_filename ) ).read().split('module A')[1]
print( src )
import re
proc = set( re.findall( r"^\s+(\w+) = ", src, re.M ) )
cont = set( re.findall( r"assign (\w+) = ", src ) )
both = sorted( proc & cont )
if both:
  print( "DEFECT: driven by the always block AND by a continuous assign from the (undriven) packed wire:", both )
  sys.exit( 1 )
print( "not reproduced" )
