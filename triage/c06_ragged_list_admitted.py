# triage reproduction (not part of the check): ragged / differently nested list specs are admitted
from pymtl3.datatypes import *
for name, spec, declared in [
    ('inner length differs', [[[Bits4,Bits4],[Bits4,Bits4]], [[Bits4],[Bits4]]], 6*4),
    ('nesting differs',      [[Bits4,Bits4],[[Bits4],[Bits4]]], 4*4),
]:
    try:
        T = mk_bitstruct('T_'+name.replace(' ','_'), {'f': spec})
    except TypeError as e:
        print(name, '-> rejected (TypeError)'); continue
    print(name, '-> ACCEPTED; nbits =', T.nbits, 'declared leaf bits =', declared)
    v = T()
    print('   default value f =', v.f)
    try:
        w = T(spec and [[ [Bits4(1)]*2 , [Bits4(2)]*2 ], [[Bits4(3)],[Bits4(4)]]] if 'inner' in name else [[Bits4(1),Bits4(2)],[[Bits4(3)],[Bits4(4)]]])
        b = w.to_bits(); print('   to_bits of a value shaped like the declaration:', b, 'nbits', b.nbits, 'vs T.nbits', T.nbits)
        print('   roundtrip equal:', T.from_bits(b) == w)
    except Exception as e:
        print('   to_bits/from_bits of a value shaped like the declaration fails:', type(e).__name__, e)
