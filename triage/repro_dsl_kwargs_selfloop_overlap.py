from pymtl3 import *
from pymtl3.dsl.errors import *
def t(name, f):
    try:
        r = f(); print(name, '->', r)
    except Exception as e:
        print(name, 'RAISED', type(e).__name__, str(e)[:160].replace('\n',' '))

# 6. keyword-arg reads
class KW(Component):
  def construct(s):
    s.in_ = InPort(8); s.w = Wire(8); s.out = OutPort(8)
    @update
    def up_b():
      s.out @= Bits8( v=s.w )
    @update
    def up_a():
      s.w @= s.in_
def kw():
  m = KW(); m.elaborate()
  rd = m.get_upblk_metadata()[0]
  return {k.__name__: sorted(map(repr,v)) for k,v in rd.items()}
t('kwarg reads', kw)

# 10 self loop
class SL(Component):
  def construct(s):
    s.x = Wire(8)
    connect(s.x, s.x)
t('self-loop', lambda: SL().elaborate())

# 11 same block overlapping slices
class OV(Component):
  def construct(s):
    s.x = Wire(8)
    @update
    def up():
      s.x[0:4] @= 1
      s.x[2:6] @= 2
t('same-block overlap', lambda: OV().elaborate())

# nested: same block writes field and parent?
