"""Triage reproduction (runs pymtl3; NOT part of any check).  C15 claim (f3): constraints of the parent that name the child's signals / blocks / methods (RD, U, M) are not patched
Builds a design, replaces a component with replace_component and compares with the same design built from scratch.
Exit status 1 when the defect shows, 0 when the behaviour equals a fresh build.   /venv/bin/python c15_parent_constraints_stale.py"""
import sys
from pymtl3 import *
from pymtl3.dsl.Connectable import Const

class Child(Component):
  def construct(s):
    s.in_ = InPort(8); s.out = OutPort(8)
    @update
    def up_c(): s.out @= s.in_
  @method_port
  def ping( s ): return 1
class Top(Component):
  def construct(s):
    s.in_ = InPort(8); s.out = OutPort(8)
    s.c = Child(); s.c.in_ //= s.in_
    @update
    def up_p(): s.out @= s.c.out
    s.add_constraints( RD(s.c.out) < U(up_p), U(s.c.get_update_block('up_c')) < U(up_p), M(s.c.ping) < U(up_p) )
a = Top(); a.elaborate()
a.replace_component(a.c, Child)
uu, rd, wr, mm = a.get_all_explicit_constraints()
blks = a.get_all_update_blocks()
stale_rd = [repr(k) for k in rd if k is not a.c.out]
stale_uu = [(x.__name__, y.__name__) for x, y in uu if x not in blks or y not in blks]
stale_m  = [repr(x) for x, y, e in mm if '<deleted>' in repr(x)]
print('RD keys not the new signal:', stale_rd); print('U-U constraints on blocks that no longer exist:', stale_uu); print('M constraints on deleted methods:', stale_m)
sys.exit(1 if (stale_rd or stale_uu or stale_m) else 0)
