"""Triage reproduction (runs pymtl3; NOT part of any check).  C15 claim (d): update blocks of a GRANDPARENT that read a grandchild's port / call its method keep the <deleted> objects
Builds a design, replaces a component with replace_component and compares with the same design built from scratch.
Exit status 1 when the defect shows, 0 when the behaviour equals a fresh build.   /venv/bin/python c15_grandparent_refs_stale.py"""
import sys
from pymtl3 import *
from pymtl3.dsl.Connectable import Const

class Leaf(Component):
  def construct(s):
    s.in_ = InPort(8); s.out = OutPort(8)
    s.out //= s.in_
  @method_port
  def ping( s ): return 1
class Mid(Component):
  def construct(s):
    s.in_ = InPort(8); s.l = Leaf(); s.l.in_ //= s.in_
class Top(Component):
  def construct(s):
    s.in_ = InPort(8); s.out = OutPort(8)
    s.m = Mid(); s.m.in_ //= s.in_
    @update_once
    def up_gp(): s.m.l.ping()
    @update
    def up_rd(): s.out @= s.m.l.out
a = Top(); a.elaborate()
try:
  a.replace_component(a.m.l, Leaf)
except Exception as e:
  print('replace_component of the grandchild raised', type(e).__name__); sys.exit(1)
r, w, c = a.get_all_upblk_metadata()
names = sorted(repr(x) for v in list(r.values()) + list(c.values()) for x in v)
print('read/call sets after replace:', names)
sys.exit(1 if any('<deleted>' in n for n in names) or 's.m.l.out' not in names or 's.m.l.ping' not in names else 0)
