"""Triage reproduction (runs pymtl3; NOT part of any check).  C15 claim (e): method-port pairs of the removed component are not pruned from connect_order
Builds a design, replaces a component with replace_component and compares with the same design built from scratch.
Exit status 1 when the defect shows, 0 when the behaviour equals a fresh build.   /venv/bin/python c15_method_port_connect_order.py"""
import sys
from pymtl3 import *
from pymtl3.dsl.Connectable import Const

class Callee(Component):
  def construct(s): pass
  @method_port
  def ping( s ): return 1
class Top(Component):
  def construct(s):
    s.caller = CallerPort(); s.c = Callee()
    connect( s.caller, s.c.ping )
a = Top(); a.elaborate(); old = a.c.ping
a.replace_component(a.c, Callee)
co = a.get_connect_order()
print('connect_order after replace:', [(repr(x), repr(y)) for x, y in co])
sys.exit(1 if any(x is old or y is old for x, y in co) else 0)
