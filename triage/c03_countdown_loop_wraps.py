# a count-down loop that does not land on its end value: range(13, 0, -3) visits 13,10,7,4,1; the emitted header
# `for ( int unsigned k = 13; k > 0; k -= 3 )` steps from 1 to 2**32-2, which is still > 0: the loop does not terminate
import os, re, sys, tempfile
from pymtl3 import *
from pymtl3.passes.backends.verilog import VerilogTranslationPass
from pymtl3.passes.backends.yosys import YosysTranslationPass
os.chdir( tempfile.mkdtemp( prefix = 'c03tri_' ) )
class A( Component ):
  def construct( s ):
    s.q = OutPort( Bits8 )
    @update
    def up():
      s.q @= 0
      for k in range( 13, 0, -3 ):
        s.q @= s.q + 1
m = A(); m.elaborate(); m.apply( DefaultPassGroup() ); m.sim_reset(); m.sim_eval_combinational(); print( 'simulation: iterations =', m.q )
def run_header( h ):
  # execute the header on a 32-bit unsigned counter (int unsigned; an integer compared with an unsigned literal compares unsigned)
  mm = re.search( r"= *\d+'d(\d+); *\S+ > \d+'d(\d+)( && \S+ <= \d+'d(\d+))?; .*- *=? *(?:\d+'d)?(\d+) *\)", h )
  if not mm: return None
  cur, end, guard, step = int( mm.group(1) ), int( mm.group(2) ), mm.group(4), int( mm.group(5) )
  vals = []
  while cur > end and ( guard is None or cur <= int( guard ) ) and len( vals ) < 8:
    vals.append( cur ); cur = ( cur - step ) % 2**32
  return vals
bad = 0
for P in ( VerilogTranslationPass, YosysTranslationPass ):
  m = A(); m.elaborate(); m.set_metadata( P.enable, True )
  try:
    m.apply( P() )
  except Exception as e:
    print( P.__name__, 'refused', type(e).__name__, str(e)[:200] ); continue
  src = open( m.get_metadata( P.translated_filename ) ).read()
  hdr = [ l.strip() for l in src.splitlines() if 'for (' in l ][0]
  vals = run_header( hdr )
  print( P.__name__, hdr, '->', vals )
  if vals != [ 13, 10, 7, 4, 1 ]: bad = 1
if bad: print( "DEFECT: the emitted count-down loop does not stop after 1 (unsigned counter wraps)" )
sys.exit( bad )
