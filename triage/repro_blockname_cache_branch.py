"""Two instances of ONE class define an update block of the same name in different branches of construct(); the per-class cache
of parsed blocks is keyed by the block name, so the second instance is judged by the first instance's reads / writes.
Exit 1 when the second instance's read set is the first one's.

TRIAGE RESULT: reproducible, but NOT a defect: ComponentLevel2._cache_func_meta documents the convention "the source of a
function/update block across different instances should be the same ... please use different names"; a design that defines two
different blocks under one name in one class is outside the supported designs.  Recorded as an observation only."""
import sys
from pymtl3 import *

class Op( Component ):
  def construct( s, sub ):
    s.a = InPort( Bits8 ); s.b = InPort( Bits8 ); s.c = InPort( Bits8 ); s.out = OutPort( Bits8 )
    if sub:
      @update
      def up():
        s.out @= s.a - s.b
    else:
      @update
      def up():
        s.out @= s.a + s.c

class Top( Component ):
  def construct( s ):
    s.x = Op( True )
    s.y = Op( False )

top = Top(); top.elaborate()
reads = top.get_all_upblk_metadata()[0] if hasattr( top, 'get_all_upblk_metadata' ) else top._dsl.all_upblk_reads
res = {}
for blk, rd in reads.items():
  host = blk.__qualname__
  res[ repr( sorted( repr(x) for x in rd ) ) ] = 1
print( sorted( res ) )
want_y = "['s.y.a', 's.y.c']"
ok = any( want_y == k for k in res )
print( "second instance reads a and c:", ok )
sys.exit( 0 if ok else 1 )
