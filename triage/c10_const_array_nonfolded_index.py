#!/venv/bin/python
"""Triage (not part of the check): a constant list of BitsN indexed by a constant EXPRESSION (s.lut[0+0]) that the generator's
ConstantExtractor does not fold reaches TypeCheckL1.visit_Index, which marks the element as implicitly sized.
exit 1 = the checker accepts a block whose simulation raises a width error (C10 violated), exit 0 = consistent."""
import sys
from pymtl3 import *
from pymtl3.passes.rtlir.behavioral import BehavioralRTLIRGenPass, BehavioralRTLIRTypeCheckPass
from pymtl3.passes.rtlir.errors import PyMTLTypeError


def accepted(cls):
    m = cls(); m.elaborate()
    try:
        m.apply(BehavioralRTLIRGenPass(m)); m.apply(BehavioralRTLIRTypeCheckPass(m))
        return True
    except PyMTLTypeError:
        return False


def sim_error(cls):
    try:
        m = cls(); m.elaborate(); m.apply(DefaultPassGroup()); m.sim_reset(); m.sim_eval_combinational()
        return None
    except Exception as e:
        return f"{type(e).__name__}: {str(e).splitlines()[0]}"


class AssignWide(Component):
    def construct(s):
        s.lut = [Bits8(3), Bits8(5)]
        s.o16 = OutPort(Bits16)

        @update
        def up():
            s.o16 @= s.lut[0+0]


class AddWide(Component):
    def construct(s):
        s.lut = [Bits8(3), Bits8(5)]
        s.a16 = InPort(Bits16)
        s.o16 = OutPort(Bits16)

        @update
        def up():
            s.o16 @= s.a16 + s.lut[0+0]


class Folded(Component):      # control: plain constant index is folded by the generator into Bits8(3) -> rejected
    def construct(s):
        s.lut = [Bits8(3), Bits8(5)]
        s.o16 = OutPort(Bits16)

        @update
        def up():
            s.o16 @= s.lut[0]


bad = 0
for c in (AssignWide, AddWide, Folded):
    a, e = accepted(c), sim_error(c)
    print(f"{c.__name__}: type checker {'ACCEPTS' if a else 'rejects'}; simulation {'raises ' + e if e else 'ok'}")
    if a and e and 'itwidth' in e:
        bad += 1
sys.exit(1 if bad else 0)
