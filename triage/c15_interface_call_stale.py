"""Triage reproduction (runs pymtl3; NOT part of any check).  C15 claim (c): a CalleeIfcCL called directly from a parent block stays stale in the call set (interfaces are not in removed_connectables)
Builds a design, replaces a component with replace_component and compares with the same design built from scratch.
Exit status 1 when the defect shows, 0 when the behaviour equals a fresh build.   /venv/bin/python c15_interface_call_stale.py"""
import sys
from pymtl3 import *
from pymtl3.dsl.Connectable import Const

class Child(Component):
  def construct(s): s.cnt = 0
  @non_blocking( lambda s: True )
  def enq( s, v ): s.cnt += 1
class Top(Component):
  def construct(s):
    s.c = Child()
    @update_once
    def up_call():
      if s.c.enq.rdy(): s.c.enq( 1 )
a = Top(); a.elaborate(); old = a.c.enq
a.replace_component(a.c, Child)
calls = [x for v in a.get_all_upblk_metadata()[2].values() for x in v]
stale, new = any(x is old for x in calls), any(x is a.c.enq for x in calls)
print('call set holds the OLD interface object:', stale, '; holds the new one:', new)
sys.exit(1 if (stale or not new) else 0)
