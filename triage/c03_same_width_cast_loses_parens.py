# claims (b), (c), (d): operands that are expressions are spliced into the text of trunc/zext/sext/reduce_* without
# parentheses (and sext applies a bit-select to the expression text)
import sys
from c03_common import *

class B( Component ):
  def construct( s ):
    s.a = InPort( Bits8 ); s.b = InPort( Bits8 ); s.c = InPort( Bits8 )
    s.ob = OutPort( Bits8 ); s.oz = OutPort( Bits8 ); s.od = OutPort( Bits1 )
    @update
    def up():
      s.ob @= trunc( s.a + s.b, 8 ) * s.c
      s.oz @= zext( s.a + s.b, 8 ) * s.c
      s.od @= reduce_and( s.a | s.b )

class S( Component ):
  def construct( s ):
    s.a = InPort( Bits8 ); s.b = InPort( Bits8 ); s.oc = OutPort( Bits16 )
    @update
    def up():
      s.oc @= sext( s.a + s.b, 16 )

sim = simulate( B, { 'a' : 0x70, 'b' : 0x20, 'c' : 2 }, [ 'ob', 'oz', 'od' ] )
print( "simulation:", { k : hex( v ) for k, v in sim.items() } )     # ob = oz = 0x20, od = 0
print( "simulation:", { k : hex( v ) for k, v in simulate( S, { 'a' : 0x70, 'b' : 0x20 }, [ 'oc' ] ).items() } )   # oc = 0xff90
text = translate( B )
try:
  text += translate( S )
except Exception as e:
  print( "sext of an expression refused:", type( e ).__name__ )
print( "\n".join( l for l in text if ' = ' in l ) )
flat = ' '.join( text ).replace( ' ', '' )
found = []
if 'ob=a+b*c;' in flat: found.append( "(b) trunc(a+b,8)*c emitted as a + b * c  (Verilog 0xb0, simulation 0x20)" )
if 'oz=a+b*c;' in flat: found.append( "(b) zext(a+b,8)*c emitted as a + b * c" )
if '{a+b[7]}' in flat:  found.append( "(c) sext(a+b,16) replicates `a + b[7]`, i.e. a + (b[7]), not bit 7 of the sum" )
if 'od=(&a|b);' in flat: found.append( "(d) reduce_and(a|b) emitted as ( & a | b ) = (&a) | b" )
for f in found: print( "DEFECT:", f )
sys.exit( 1 if found else 0 )
