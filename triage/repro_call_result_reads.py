from pymtl3 import *
class A(Component):
  def construct(s):
    s.w = Wire(Bits4); s.b = Wire(Bits4); s.o = OutPort(Bits4); s.i = InPort(Bits4)
    @update
    def up_rd():
      s.o @= concat(s.w, s.b)[2:6]
    @update
    def up_wr():
      s.w @= s.i
      s.b @= s.i
a = A(); a.elaborate()
rd, wr, _ = a.get_all_upblk_metadata()
for blk, r in rd.items(): print(blk.__name__, [repr(x) for x in r])
a.apply(DefaultPassGroup()); a.sim_reset()
a.i @= 5; a.sim_eval_combinational(); print(a.o)
a.i @= 10; a.sim_eval_combinational(); print(a.o)
class B(Component):
  def construct(s):
    s.w = Wire(Bits8); s.k = Wire(Bits2); s.o = OutPort(Bits4); s.i = InPort(Bits8); s.j=InPort(Bits2)
    @update
    def up_rd():
      s.o @= zext(s.w, 16)[s.k:s.k+4]
    @update
    def up_wr():
      s.w @= s.i
      s.k @= s.j
b = B(); b.elaborate()
rd, wr, _ = b.get_all_upblk_metadata()
for blk, r in rd.items(): print(blk.__name__, sorted(repr(x) for x in r))
