# helpers shared by the c03_*.py reproductions (translate a component with the SystemVerilog back-end and return the
# text of its module; run in a scratch directory: the pass writes <name>__pickled.v into the current directory)
import os, tempfile
from pymtl3 import *
from pymtl3.passes.backends.verilog import VerilogTranslationPass

os.chdir( tempfile.mkdtemp( prefix = 'c03tri_' ) )

def translate( C, *args ):
  m = C( *args ); m.elaborate()
  m.set_metadata( VerilogTranslationPass.enable, True )
  m.apply( VerilogTranslationPass() )
  src = open( m.get_metadata( VerilogTranslationPass.translated_filename ) ).read()
  body = src[ src.rfind( '// PyMTL Component' ): ]
  return [ l.rstrip() for l in body.splitlines() if l.strip() and not l.strip().startswith( '//' ) ]

def simulate( C, inputs, outputs ):
  m = C(); m.elaborate(); m.apply( DefaultPassGroup() ); m.sim_reset()
  for k, v in inputs.items(): getattr( m, k ).__imatmul__( v )
  m.sim_eval_combinational()
  return { o : int( getattr( m, o ) ) for o in outputs }
