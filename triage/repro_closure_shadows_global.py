"""A constructor parameter (closure variable of the update block) that has the same name as a module-level global must win,
as in Python's own name resolution.  Exit 1 when the wrong list element is recorded as written."""
import sys
from pymtl3 import *

idx = 0          # unrelated module-level name

class Regs( Component ):
  def construct( s, idx ):
    s.in_  = InPort( Bits8 )
    s.regs = [ Wire( Bits8 ) for _ in range(4) ]
    s.out  = OutPort( Bits8 )
    @update_ff
    def up():
      s.regs[ idx ] <<= s.in_
    @update
    def rd():
      s.out @= s.regs[ idx ]

top = Regs( 2 )
top.elaborate()
flags = [ r._dsl.needs_double_buffer for r in top.regs ]
writes = top.get_all_upblk_metadata()[1] if hasattr(top,'get_all_upblk_metadata') else None
top.apply( DefaultPassGroup() )
top.sim_reset()
top.in_ @= 0x5a
top.sim_tick()
top.sim_tick()
print("out =", top.out, " needs_double_buffer per element =", flags)
ok = top.out == 0x5a and flags == [False, False, True, False]
sys.exit(0 if ok else 1)
