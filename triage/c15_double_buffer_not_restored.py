"""Triage reproduction (runs pymtl3; NOT part of any check).  C15 claim (b): needs_double_buffer is not set on the new child InPort that the parent writes with <<= in an update_ff block
Builds a design, replaces a component with replace_component and compares with the same design built from scratch.
Exit status 1 when the defect shows, 0 when the behaviour equals a fresh build.   /venv/bin/python c15_double_buffer_not_restored.py"""
import sys
from pymtl3 import *
from pymtl3.dsl.Connectable import Const

class Child(Component):
  def construct(s):
    s.in_ = InPort(8); s.out = OutPort(8)
    s.out //= s.in_
class Top(Component):
  def construct(s):
    s.in_ = InPort(8); s.out = OutPort(8)
    s.c = Child()
    s.out //= s.c.out
    @update_ff
    def up_ff(): s.c.in_ <<= s.in_
def run(t):
  t.apply(DefaultPassGroup()); t.sim_reset(); tr = []
  for v in (3, 7, 9): t.in_ @= v; t.sim_tick(); tr.append(int(t.out))
  return tr
a = Top(); a.elaborate(); a.replace_component(a.c, Child)
b = Top(); b.elaborate()
fa, fb = a.c.in_._dsl.needs_double_buffer, b.c.in_._dsl.needs_double_buffer
ra, rb = run(a), run(b)
print('needs_double_buffer', fa, 'vs fresh', fb); print('trace', ra, 'vs fresh', rb)
sys.exit(1 if (fa != fb or ra != rb) else 0)
