"""Triage (C13, determinism): a function passed as a construct() parameter.

get_component_full_name.get_string falls back to str(obj); for a function that is `<function mk.<locals>.offset at 0x7f...>`
(contains the object's address), so the "Full name" comment and the hashed module name change from process to process:

  for i in 1 2 3; do /venv/bin/python /verif/triage/repro_callable_param_name.py; done

prints three different `module Lut__<digest>` lines on the clean tree.  Candidate fix: /tmp/c13/fix_callable_param_name.diff
(qualified name + digest over code / constants / defaults / closure values, never the address).
"""
import os, tempfile
os.chdir(tempfile.mkdtemp())
from pymtl3 import *
from pymtl3.passes.backends.verilog import VerilogTranslationPass


def mk(off):
  def offset(x):
    return x + off
  return offset


class Lut(Component):
  def construct(s, nbits, fn):
    s.in_ = InPort(nbits)
    s.out = OutPort(nbits)
    v = fn(1)

    @update
    def up():
      s.out @= s.in_ + v


a = Lut(8, mk(1))
a.set_metadata(VerilogTranslationPass.enable, True)
a.elaborate()
a.apply(VerilogTranslationPass())
txt = open(a.get_metadata(VerilogTranslationPass.translated_filename)).read()
print([l for l in txt.split('\n') if l.startswith('module') or 'Full name' in l])
