# [Ifc(Bits8), Ifc(Bits16)] is admitted as an array of interfaces (InterfaceView.__eq__ compares the class name only);
# all elements are declared with the port types of element 0, so the 16-bit x[1].msg becomes an 8-bit port
import os, re, sys, tempfile
from pymtl3 import *
from pymtl3.passes.backends.verilog import VerilogTranslationPass
os.chdir( tempfile.mkdtemp( prefix = 'c03tri_' ) )
class Ifc( Interface ):
  def construct( s, T ):
    s.msg = InPort( T )
class A( Component ):
  def construct( s ):
    s.x = [ Ifc( Bits8 ), Ifc( Bits16 ) ]
    s.o = OutPort( Bits16 )
    s.o //= s.x[1].msg
m = A(); m.elaborate(); m.apply( DefaultPassGroup() ); m.sim_reset()
m.x[1].msg @= 0xabcd; m.sim_eval_combinational(); print( 'simulation: o =', m.o )
m = A(); m.elaborate(); m.set_metadata( VerilogTranslationPass.enable, True )
try:
  m.apply( VerilogTranslationPass() )
except Exception as e:
  print( 'refused:', type(e).__name__, str(e)[:300] ); print( 'not reproduced' ); sys.exit( 0 )
src = open( m.get_metadata( VerilogTranslationPass.translated_filename ) ).read()
top = src[ src.rfind( 'module A' ): ]
print( top )
if re.search( r"\[7:0\] x__msg \[0:1\]", top ):
  print( "DEFECT: x[1].msg is 16 bits wide in the design and declared as element 1 of an 8-bit port array; o = x__msg[1] loses the upper byte" )
  sys.exit( 1 )
print( "not reproduced" )
