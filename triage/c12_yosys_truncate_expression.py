import os, tempfile
from pymtl3 import *
from pymtl3.passes.backends.yosys import YosysTranslationPass
os.chdir( tempfile.mkdtemp( prefix = 'c12tri_' ) )
class A( Component ):
  def construct( s ):
    s.a = InPort( Bits8 ); s.b = InPort( Bits8 ); s.o = OutPort( Bits8 )
    @update
    def up():
      s.o @= zext( Bits4( s.a + s.b ), 8 )
m = A(); m.elaborate()
m.set_metadata( YosysTranslationPass.enable, True )
try:
  m.apply( YosysTranslationPass() )
  src = open( m.get_metadata( YosysTranslationPass.translated_filename ) ).read()
  print( [ l for l in src.splitlines() if ' o = ' in l ] )
except Exception as e:
  print( 'refused:', type(e).__name__, str(e)[:200] )
