"""Triage (C13, reserved-word clause): a for-loop variable named like a SystemVerilog keyword.

Expected: VerilogTranslationError "name reg is a SystemVerilog reserved keyword!".
Observed on the clean tree: AttributeError: 'LoopVarDecl' object has no attribute 'ast'
(BehavioralRTLIRGeneratorL2.visit_For builds `bir.LoopVarDecl(node.target.id)` without attaching `.ast`, and
VerilogTranslationError.__init__ reads `_ast.ast` unconditionally).  The translation is still refused (no illegal text is
emitted), so this is a diagnostics defect, not a C13 violation.

Run:  /venv/bin/python /verif/triage/repro_loopvar_reserved_keyword.py
"""
from pymtl3 import *
from pymtl3.passes.backends.verilog import VerilogTranslationPass


class A(Component):
  def construct(s):
    s.in_ = InPort(8)
    s.out = OutPort(8)

    @update
    def up():
      s.out @= 0
      for reg in range(4):
        s.out @= s.out + s.in_


a = A()
a.set_metadata(VerilogTranslationPass.enable, True)
a.elaborate()
try:
  a.apply(VerilogTranslationPass())
  print("UNEXPECTED: translation accepted a loop variable called `reg`")
except Exception as e:
  print(type(e).__name__, ":", str(e).splitlines()[0][:120])
