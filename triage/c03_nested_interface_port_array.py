# an array of ports inside an interface that is nested in an interface of the component: the SV back-end's recursion into the
# nested interface passes the raw rt.Array where a translated array type is expected and the translation crashes
import os, sys, tempfile
from pymtl3 import *
from pymtl3.passes.backends.verilog import VerilogTranslationPass
os.chdir( tempfile.mkdtemp( prefix = 'c03tri_' ) )
class Inner( Interface ):
  def construct( s ):
    s.msg = [ InPort( Bits8 ) for _ in range(2) ]
class Outer( Interface ):
  def construct( s ):
    s.lane = Inner()
class A( Component ):
  def construct( s ):
    s.x = Outer()
    s.o = OutPort( Bits8 )
    s.o //= s.x.lane.msg[1]
m = A(); m.elaborate(); m.apply( DefaultPassGroup() ); m.sim_reset()
m.x.lane.msg[1] @= 0x5a; m.sim_eval_combinational(); print( 'simulation: o =', m.o )
m = A(); m.elaborate(); m.set_metadata( VerilogTranslationPass.enable, True )
try:
  m.apply( VerilogTranslationPass() )
except TypeError as e:
  print( "DEFECT: the translation fails with TypeError:", e )
  sys.exit( 1 )
src = open( m.get_metadata( VerilogTranslationPass.translated_filename ) ).read()
print( src[ src.rfind( 'module A' ): ] )
print( "not reproduced" )
