from pymtl3 import *
from pymtl3.stdlib.queues.enrdy_queues import BypassQueue2RTL
q = BypassQueue2RTL(Bits8)
q.elaborate(); q.apply(DefaultPassGroup()); q.sim_reset()
def cyc(en, msg, rdy):
    q.enq.en @= en; q.enq.msg @= msg; q.deq.rdy @= rdy
    q.sim_eval_combinational()
    print(f"enq.rdy={q.enq.rdy} enq.en={en} msg={msg:#x} | deq.rdy={rdy} deq.en={q.deq.en} deq.msg={q.deq.msg} | q1.full={q.q1.full.out} q2.full={q.q2.full.out}")
    q.sim_tick()
cyc(1, 0xA, 0)   # A stored (bypasses q1, sits in q2)
cyc(1, 0xB, 1)   # A delivered, B accepted -> sits in q1 because q2.enq.rdy was low
q.enq.en @= 0; q.deq.rdy @= 0; q.sim_eval_combinational()
print("now: stored messages =", int(q.q1.full.out)+int(q.q2.full.out), "of 2, enq.rdy =", q.enq.rdy)
