from pymtl3 import *
import traceback
def t(name, f):
    try:
        r = f(); print(name, '->', r)
    except Exception as e:
        print(name, 'RAISED', type(e).__name__, str(e)[:100].replace('\n',' '))
x = Bits8(0xab)
t('x[0:0]', lambda: x[0:0])
t('x[4:0]', lambda: x[4:0])
t('x[0:8]', lambda: x[0:8])
def setz():
    y = Bits8(0xab); y[4:0] = Bits4(1); return y
t('set y[4:0]=Bits4', setz)
t('clog2(2**29)', lambda: clog2(2**29))
t('clog2(2**31)', lambda: clog2(2**31))
t('clog2(1000)', lambda: clog2(1000))
bad=[k for k in range(1,200) if clog2(2**k)!=k]
print('clog2 wrong for 2**k, k in', bad[:20])
from pymtl3.passes.rtlir.rtype.RTLIRDataType import _get_nbits_from_value as g
badg=[k for k in range(1,200) if g(2**k)!=k+1]
print('_get_nbits_from_value wrong for 2**k, k in', badg[:10], '...')
print('g(-2)', g(-2), 'g(-3)', g(-3), 'g(-4)', g(-4))
t('Bits4 << Bits8', lambda: Bits4(1) << Bits8(1))
t('1 // Bits4(0)', lambda: 1 // Bits4(0))
t('Bits1 setitem -1', lambda: Bits8(0).__setitem__(0,-1))
